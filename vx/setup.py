#!/usr/bin/env python3
"""Offline setup: nothing to build (the driver is plain Python, the verifiers are
pre-installed).  Checks that the tools the registered commands need are present and
warms the verifier start-up."""
import shutil, subprocess, sys, os
ok = True
for tool in ['cargo-kani', 'cbmc', 'cvc5', 'verus', 'rsync']:
    p = shutil.which(tool)
    print(f'{tool:12} {p}')
    ok = ok and bool(p)
os.makedirs(os.path.join(os.path.dirname(os.path.dirname(os.path.abspath(__file__))), 'evidence'), exist_ok=True)
os.makedirs(os.path.join(os.path.dirname(os.path.dirname(os.path.abspath(__file__))), 'replays'), exist_ok=True)
sys.exit(0 if ok else 1)
