#!/usr/bin/env python3
"""(re)pin the residual hashes of every sliced function: writes a [residual] table into each
units/*.toml that has [[slice]] entries.  Run after reviewing that the code outside the slices
is still only plumbing."""
import os, re, sys
sys.path.insert(0, os.path.dirname(os.path.dirname(os.path.abspath(__file__))))
from vx.common import *
from vx import kani as K, rustscan
for fn in sorted(os.listdir(UNITS)):
    if not fn.endswith('.toml'): continue
    cfg = load_toml(os.path.join(UNITS, fn))
    if cfg.get('backend') != 'kani' or not cfg.get('slice'): continue
    spans = {}
    for s in cfg['slice']:
        f = s.get('file', cfg['host'])
        src = read(os.path.join(REPO, f))
        it = rustscan.find_fn(src, s['fn'], s.get('impl'))
        kind = s.get('kind', 'let')
        if kind == 'let': a, b = rustscan.find_let(src, it, s['key'], s.get('nth', 0))
        elif kind == 'expr': a, b = rustscan.find_expr_after(src, it, s['key'], s.get('nth', 0))
        elif kind == 'call': a, b = rustscan.find_call(src, it, s['key'], s.get('nth', 0))
        elif kind == 'body': a, b = it.body_open + 1, it.body_close
        elif kind == 'callat':
            ms = list(re.finditer(s['key'], rustscan.mask(src)[it.body_open:it.body_close])); m = ms[s.get('nth', 0)]
            a = it.body_open + m.start(); b = rustscan.match_brace(rustscan.mask(src), it.body_open + m.end() - 1) + 1
        else:
            ms = list(re.finditer(s['key'], rustscan.mask(src)[it.body_open:it.body_close])); m = ms[s.get('nth', 0)]
            a, b = it.body_open + m.start(), it.body_open + m.end()
        spans.setdefault((f, s['fn'], s.get('impl')), []).append((a, b))
    table = {k[1]: K.residual_hash(read(os.path.join(REPO, k[0])), k[1], k[2], v) for k, v in spans.items()}
    p = os.path.join(UNITS, fn)
    text = read(p)
    text = re.sub(r'\n\[residual\]\n(?:[^\[\n][^\n]*\n)*', '\n', text)
    # top-level table must come before the first array-of-tables
    k = text.index('[[')
    text = text[:k] + '[residual]\n' + ''.join(f'{name} = "{h}"\n' for name, h in sorted(table.items())) + '\n' + text[k:]
    write(p, text)
    print(fn, table)
