"""Minimal Rust item scanner: comment/string/char aware, brace matching.

Finds `fn` items (optionally inside an `impl ... {` block whose header matches a
regex), `let <name> =` initialisers inside a function body, and the n-th loop
header of a function.  Every lookup that fails raises LostAnchor, which the
driver maps to exit 2 ("undecided"), never to a violation.
"""
import re


class LostAnchor(Exception):
    pass


def mask(src: str) -> str:
    """Return src with comments, string/char literal *contents* replaced by
    spaces (same length, newlines kept) so brace matching and regexes are safe."""
    out = list(src)
    i, n = 0, len(src)

    def blank(a, b):
        for k in range(a, b):
            if out[k] != '\n':
                out[k] = ' '

    while i < n:
        c = src[i]
        if src.startswith('//', i):
            j = src.find('\n', i)
            j = n if j < 0 else j
            blank(i, j)
            i = j
        elif src.startswith('/*', i):
            depth, j = 1, i + 2
            while j < n and depth:
                if src.startswith('/*', j):
                    depth += 1; j += 2
                elif src.startswith('*/', j):
                    depth -= 1; j += 2
                else:
                    j += 1
            blank(i, j)
            i = j
        elif c == '"' or (c == 'r' and re.match(r'r#*"', src[i:i + 8]) and (i == 0 or not (src[i - 1].isalnum() or src[i - 1] == '_'))) \
                or (c == 'b' and src.startswith('b"', i) and (i == 0 or not (src[i - 1].isalnum() or src[i - 1] == '_'))):
            if c == 'b':
                i += 1
                c = '"'
            if c == 'r':
                m = re.match(r'r(#*)"', src[i:])
                hashes = m.group(1)
                start = i + len(m.group(0))
                end = src.find('"' + hashes, start)
                end = n if end < 0 else end
                blank(start, end)
                i = end + 1 + len(hashes)
            else:
                j = i + 1
                while j < n and src[j] != '"':
                    j += 2 if src[j] == '\\' else 1
                blank(i + 1, j)
                i = j + 1
        elif c == "'":
            # char literal or lifetime
            m = re.match(r"'(\\.[^']*|[^'\\])'", src[i:])
            if m:
                blank(i + 1, i + len(m.group(0)) - 1)
                i += len(m.group(0))
            else:
                i += 1
        else:
            i += 1
    return ''.join(out)


def match_brace(masked: str, open_idx: int) -> int:
    """index of the brace/paren/bracket matching the opener at open_idx"""
    pairs = {'{': '}', '(': ')', '[': ']'}
    o = masked[open_idx]
    c = pairs[o]
    depth = 0
    for k in range(open_idx, len(masked)):
        ch = masked[k]
        if ch == o:
            depth += 1
        elif ch == c:
            depth -= 1
            if depth == 0:
                return k
    raise LostAnchor(f'unbalanced {o} at offset {open_idx}')


class Item:
    def __init__(self, src, start, sig_start, body_open, body_close):
        self.src = src
        self.start = start            # first char of the item line incl. attributes / doc comments
        self.sig_start = sig_start    # first char of `pub fn` / `fn`
        self.body_open = body_open    # index of '{'
        self.body_close = body_close  # index of matching '}'

    @property
    def text(self):
        return self.src[self.start:self.body_close + 1]

    @property
    def signature(self):
        return self.src[self.sig_start:self.body_open].strip()

    @property
    def body(self):
        return self.src[self.body_open + 1:self.body_close]

    def line_span(self):
        return (self.src.count('\n', 0, self.sig_start) + 1, self.src.count('\n', 0, self.body_close) + 1)


def _line_start(src, idx):
    k = src.rfind('\n', 0, idx)
    return k + 1


def _attr_start(src, idx):
    """walk upwards over attribute / doc-comment lines directly above idx"""
    start = _line_start(src, idx)
    while start > 0:
        prev = _line_start(src, start - 1)
        line = src[prev:start - 1].strip()
        if line.startswith('#[') or line.startswith('///'):
            start = prev
        else:
            break
    return start


def find_impl(src, header_regex):
    """span (open, close) of the first `impl` block whose header matches"""
    m_src = mask(src)
    for m in re.finditer(r'(?m)^[ \t]*(?:unsafe\s+)?impl\b[^{;]*\{', m_src):
        header = m.group(0)
        if re.search(header_regex, header):
            o = m.end() - 1
            return o, match_brace(m_src, o)
    raise LostAnchor(f'impl block /{header_regex}/ not found')


def find_fn(src, name, impl=None):
    """locate `fn name` (inside impl block matching regex `impl` when given)"""
    m_src = mask(src)
    lo, hi = 0, len(src)
    if impl:
        lo, hi = find_impl(src, impl)
    pat = re.compile(r'(?m)^[ \t]*((?:pub(?:\([a-z]+\))?\s+)?(?:const\s+)?(?:unsafe\s+)?fn\s+' + re.escape(name) + r')\b')
    for m in pat.finditer(m_src, lo, hi):
        sig_start = m.start(1)
        # body '{' : first '{' at paren/bracket depth 0 after the name
        k = m.end()
        depth = 0
        while k < hi:
            ch = m_src[k]
            if ch in '([':
                depth += 1
            elif ch in ')]':
                depth -= 1
            elif ch == ';' and depth == 0:
                break  # declaration without body
            elif ch == '{' and depth == 0:
                close = match_brace(m_src, k)
                return Item(src, _attr_start(src, sig_start), sig_start, k, close)
            k += 1
    raise LostAnchor(f'fn {name} not found' + (f' in impl /{impl}/' if impl else ''))


def find_let(src, fn_item: Item, binding, nth=0):
    """(start, end) of the initialiser expression of the nth `let [mut] binding[: T] = <expr>;` in fn"""
    m_src = mask(src)
    pat = re.compile(r'\blet\s+(?:mut\s+)?' + re.escape(binding) + r'\b\s*(?::[^=;]+?)?=(?!=)')
    ms = list(pat.finditer(m_src, fn_item.body_open, fn_item.body_close))
    if len(ms) <= nth:
        raise LostAnchor(f'let {binding} (#{nth}) not found in {fn_item.signature[:60]}')
    k = ms[nth].end()
    start = k
    depth = 0
    while k < fn_item.body_close:
        ch = m_src[k]
        if ch in '([{':
            depth += 1
        elif ch in ')]}':
            depth -= 1
        elif ch == ';' and depth == 0:
            return start, k
        k += 1
    raise LostAnchor(f'initialiser of let {binding} not terminated')


def find_expr_after(src, fn_item: Item, marker_regex, nth=0):
    """(start,end) of a brace-delimited expression that starts at the nth match of
    marker_regex inside the function (e.g. r'match\\s+notation' -> the whole match expr)."""
    m_src = mask(src)
    ms = list(re.finditer(marker_regex, m_src[fn_item.body_open:fn_item.body_close]))
    if len(ms) <= nth:
        raise LostAnchor(f'/{marker_regex}/ (#{nth}) not found in {fn_item.signature[:60]}')
    s = fn_item.body_open + ms[nth].start()
    k = s
    while k < fn_item.body_close and m_src[k] != '{':
        k += 1
    e = match_brace(m_src, k)
    return s, e + 1


def find_call(src, fn_item: Item, callee_regex, nth=0):
    """(start,end) of a call expression `callee(...)` inside the function"""
    m_src = mask(src)
    ms = list(re.finditer(callee_regex + r'\s*\(', m_src[fn_item.body_open:fn_item.body_close]))
    if len(ms) <= nth:
        raise LostAnchor(f'call /{callee_regex}/ (#{nth}) not found in {fn_item.signature[:60]}')
    s = fn_item.body_open + ms[nth].start()
    o = fn_item.body_open + ms[nth].end() - 1
    e = match_brace(m_src, o)
    return s, e + 1


def nth_loop(src, fn_item: Item, n):
    """index of the '{' that opens the body of the n-th loop (while/for/loop) of fn"""
    m_src = mask(src)
    ms = list(re.finditer(r'\b(while|for|loop)\b', m_src[fn_item.body_open:fn_item.body_close]))
    if len(ms) <= n:
        raise LostAnchor(f'loop #{n} not found in {fn_item.signature[:60]}')
    k = fn_item.body_open + ms[n].end()
    depth = 0
    while k < fn_item.body_close:
        ch = m_src[k]
        if ch in '([':
            depth += 1
        elif ch in ')]':
            depth -= 1
        elif ch == '{' and depth == 0:
            return fn_item.body_open + ms[n].start(), k
        k += 1
    raise LostAnchor('loop body not found')


def find_const(src, name):
    m_src = mask(src)
    m = re.search(r'(?m)^[ \t]*(?:pub(?:\([a-z]+\))?\s+)?(?:const|static)\s+' + re.escape(name) + r'\b[^;]*;', m_src)
    if not m:
        raise LostAnchor(f'const {name} not found')
    return src[m.start():m.end()].strip()


def find_struct(src, name):
    m_src = mask(src)
    m = re.search(r'(?m)^[ \t]*(?:pub(?:\([a-z]+\))?\s+)?(struct|enum)\s+' + re.escape(name) + r'\b', m_src)
    if not m:
        raise LostAnchor(f'struct/enum {name} not found')
    k = m.end()
    while m_src[k] not in '{;(':
        k += 1
    if m_src[k] == ';':
        return src[m.start():k + 1]
    e = match_brace(m_src, k)
    if m_src[k] == '(':
        e = m_src.find(';', e)
    return src[m.start():e + 1]
