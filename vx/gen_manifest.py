#!/usr/bin/env python3
"""regenerate MANIFEST.json from props.toml (single source of truth for what is claimed)"""
import json, os, sys
sys.path.insert(0, os.path.dirname(os.path.dirname(os.path.abspath(__file__))))
from vx.common import *

props = load_toml(os.path.join(VERIF, 'props.toml'))
meta = props.pop('_meta')
checks = []
for pid in sorted(k for k in props if k.startswith('C')):
    p = props[pid]
    if p.get('not_applicable'):
        continue
    c = {
        'property_id': pid,
        'quick_cmd': f'python3 vx/check.py {pid} --tier quick',
        'thorough_cmd': f'python3 vx/check.py {pid} --tier thorough',
        'evidence_file': f'evidence/{pid}.json',
        'replay_cmd_template': 'python3 vx/check.py --replay {path}',
        'engine': 'vx',
        'level_claimed': {'category': p.get('category', 'proof'), 'text': p['level_text'], 'design_ref': p.get('design_ref', 'DESIGN.md §6')},
        'level_note': p['level_note'],
        'technique': p['technique'],
    }
    checks.append(c)
na = [{'property_id': pid, 'reason': props[pid]['not_applicable']} for pid in sorted(props) if pid.startswith('C') and props[pid].get('not_applicable')]
m = {
    'version': 1,
    'setup_cmd': meta['setup_cmd'],
    'hooks': meta['hooks'],
    'engines': [{'name': 'vx', 'path': 'vx/check.py', 'serves_properties': [c['property_id'] for c in checks],
                 'kind_free_text': 'contract-based deductive verification of the real code: Kani 0.68/CBMC function contracts and full-domain loop-free harnesses injected in place into a scratch copy of /repo (cvc5 / CaDiCaL), Verus on functions extracted mechanically every run'}],
    'checks': checks,
    'notes': meta['notes'],
    'not_applicable': na,
}
dump_json(os.path.join(VERIF, 'MANIFEST.json'), m)
print('MANIFEST.json:', len(checks), 'checks,', len(na), 'not applicable')
