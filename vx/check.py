#!/usr/bin/env python3
"""check.py <Cxx> [--tier quick|thorough] [--keep]   |   check.py --replay <file>

Decides one property by discharging every named obligation of the units listed
for it in props.toml from /repo's current working tree.
exit 0 = all discharged; exit 1 = VIOLATION line(s); exit 2 = undecided (tool
limit, lost anchor, vacuity guard) - never reported as a violation."""
import argparse, os, sys, time, json, re, traceback, subprocess
from concurrent.futures import ThreadPoolExecutor

sys.path.insert(0, os.path.dirname(os.path.dirname(os.path.abspath(__file__))))
from vx.common import *
from vx import kani as K
from vx import verus as V
from vx import rustscan


def load_props():
    return load_toml(os.path.join(VERIF, 'props.toml'))


def load_known():
    p = os.path.join(VERIF, 'known_findings.json')
    if os.path.exists(p):
        return json.load(open(p))
    return {'findings': [], 'fixed': []}


def repo_state():
    try:
        head = subprocess.run(['git', '-C', REPO, 'rev-parse', 'HEAD'], capture_output=True, text=True).stdout.strip()
        dirty = subprocess.run(['git', '-C', REPO, 'status', '--porcelain', '--untracked-files=no'], capture_output=True, text=True).stdout
        return {'head': head, 'dirty_files': [l[3:] for l in dirty.splitlines() if l.strip()]}
    except Exception:
        return {}


def select(prop, tier):
    """-> (kunits {name: KUnit}, [(KUnit, harness)], [verus unit names])"""
    kunits, sel = {}, []
    for ref in prop.get('kani', []):
        uname, _, hpat = ref.partition(':')
        if uname not in kunits:
            kunits[uname] = K.KUnit(uname)
        u = kunits[uname]
        names = list(u.harness) if hpat in ('', '*') else [hpat]
        for hn in names:
            if hn not in u.harness:
                raise Undecided(f'props.toml names unknown harness {ref}')
            h = u.harness[hn]
            if h.get('tier', 'quick') == 'quick' or tier == 'thorough':
                if (u, hn) not in sel:
                    sel.append((u, hn))
    vunits = [v for v in prop.get('verus', [])]
    return kunits, sel, vunits


def do_check(pid, tier, keep=False, only=None):
    t0 = time.time()
    props = load_props()
    if pid not in props or props[pid].get('not_applicable'):
        print(f'unknown or unclaimed property {pid}')
        return EXIT_UNDECIDED
    prop = props[pid]
    known = load_known()
    kf_by_obl = {}
    for f in known.get('findings', []):
        if f['property'] == pid:
            kf_by_obl[f['obligation']] = f
    seed = int(os.environ.get('VERIF_SEED', '0') or 0)

    kunits, sel, vunits = select(prop, tier)
    if only:
        sel = [(u, h) for (u, h) in sel if only in f'{u.name}:{h}']
        vunits = [v for v in vunits if only in v]
    obligations = []       # dicts: id, status, backend, unit, harness
    violations = []        # dicts
    undecided = []
    known_hits = []
    unit_reports = []
    assumptions = list(prop.get('assumptions', []))
    trusted = list(prop.get('trusted_base', []))
    trusted += ['rustc, Kani 0.68, CBMC 6.11, CaDiCaL / cvc5 1.0 (tool chain); Kani does not prove termination (harnesses are loop-free or fully unwound with unwinding assertions)',
                'the vx driver: mechanical injection/extraction, result classification, vx/smtwrap formula pass-through',
                'core/alloc as modelled by Kani; chrono 0.4.45 is executed symbolically inside the proofs, not assumed',
                'A3: the regex tokenizers and the rule matcher hand each function the typed values the phrase denotes (unverified layer)']
    bounded = []
    checker_cmds = []
    solver_total = 0.0
    samples = []

    # ---------------- Kani ----------------
    # Units are built in groups (one scratch copy per group): a unit that stubs a function
    # cannot share a build with the unit that attaches an in-place contract to it.
    kruns = []
    krun = None
    try:
        if sel:
            groups = {}
            for u, hn in sel:
                groups.setdefault(u.cfg.get('group', 'main'), []).append((u, hn))
            workers = int(os.environ.get('VERIF_JOBS', '8'))

            def run_group(item):
                g, pairs = item
                used = []
                for u, _ in pairs:
                    if u not in used:
                        used.append(u)
                for u in list(used):
                    for rq in u.requires:
                        if rq not in [x.name for x in used]:
                            used.append(kunits[rq] if rq in kunits else K.KUnit(rq))
                kr = K.KaniRun(f'{pid}.{g}', used, keep=keep)
                kruns.append(kr)
                kr.prepare()
                kr.build()
                return kr, pairs

            with ThreadPoolExecutor(max_workers=4) as ex:
                built = list(ex.map(run_group, sorted(groups.items())))
            jobs = [(kr, u, hn) for kr, pairs in built for (u, hn) in pairs]

            def one(j):
                kr, u, hn = j
                r = kr.run_harness(u, hn)
                # Fallback chain on back-end crashes (never on a verdict):
                #   cvc5-fpa (CBMC's own cvc5 flavour) aborts with "map::at" on goto programs holding Box/Rc<dyn>;
                #   cvc5 (bit-vector flavour through vx/smtwrap) can make CBMC abort while reading a `sat` model,
                #   and havocs some heap builtins; cadical (SAT) is precise but slow on float multipliers.
                chain = {'cvc5-fpa': 'cvc5', 'cvc5': 'cadical'}
                cur = u.harness[hn].get('solver')
                tried = [cur]
                while cur in chain and not r['killed'] and 'CBMC failed with status' in r['out']:
                    cur = chain[cur]
                    r2 = kr.run_harness(u, hn, solver_override=cur, timeout=u.harness[hn].get('fallback_timeout', 400))
                    r2['wall_s'] += r['wall_s']
                    tried.append(cur)
                    r2['fallback_from'] = ' -> '.join(tried[:-1]) + ' (back end aborted)'
                    r2['final_solver'] = cur
                    r = r2
                # A failure reported through an SMT flavour is only believed when the SAT back end
                # confirms it: CBMC's SMT2 output over-approximates some operations (observed: a
                # spurious chrono::expect panic through checked_mul under the cvc5 flavour).
                if cur in ('cvc5', 'cvc5-fpa') and u.harness[hn].get('expect') != 'canary' and not r['killed'] and 'VERIFICATION:- FAILED' in r['out'] and 'CBMC failed with status' not in r['out']:
                    r2 = kr.run_harness(u, hn, solver_override='cadical', timeout=u.harness[hn].get('confirm_timeout', 150))
                    if r2['killed']:
                        # SAT cannot re-decide it in time (float multipliers): keep the SMT verdict, but it only
                        # counts as a violation if its counterexample fails when replayed natively on the real code
                        r['needs_native'] = True
                        r['smt_solver'] = cur
                        r['wall_s'] += r2['wall_s']
                    else:
                        r2['wall_s'] += r['wall_s']
                        r2['fallback_from'] = cur + ' reported a failure; re-decided by the SAT back end'
                        r2['final_solver'] = 'cadical'
                        r = r2
                return (kr, u, hn), r

            with ThreadPoolExecutor(max_workers=workers) as ex:
                results = list(ex.map(one, jobs))
            used_units = []
            for kr, _ in built:
                for u in kr.units:
                    if u not in used_units:
                        used_units.append(u)
            for (krun, u, hn), r in results:
                h = u.harness[hn]
                rep = {'unit': u.name, 'harness': hn, 'backend': 'kani/cbmc', 'solver': h.get('solver', 'cadical(default)'),
                       'tier': h.get('tier', 'quick'), 'wall_s': r['wall_s'], 'peak_rss_mb': r['peak_rss_mb'], 'cmd': r['cmd']}
                checker_cmds.append(r['cmd'])
                want_obls, want_covers = u.harness_obls(hn)
                cc = {}
                for c in u.cfg.get('contract', []):
                    cc.update(c.get('clauses', {}))
                if h.get('contract_clauses'):
                    want_obls = sorted(set(want_obls) | set(h['contract_clauses']))
                if r['killed'] or r['rc'] is None:
                    undecided.append(f'{u.name}:{hn}: killed ({r["killed"]})')
                    rep['status'] = 'undecided:' + str(r['killed'])
                    unit_reports.append(rep)
                    continue
                checks, solver_s, vt, verdict = K.parse_results(r['out'])
                solver_total += solver_s
                rep['solver_s'] = round(solver_s, 2)
                if r.get('fallback_from'):
                    rep['solver'] = r['final_solver'] + ' (fallback from ' + r['fallback_from'] + ')'
                if verdict is None or 'CBMC failed with status' in r['out']:
                    undecided.append(f'{u.name}:{hn}: no verdict from kani (rc={r["rc"]}): ' + r['out'][-1500:])
                    rep['status'] = 'undecided:no-verdict'
                    unit_reports.append(rep)
                    continue
                res = K.classify(u, hn, checks, verdict, all_contract_clauses(krun.units))
                rep['cbmc_checks'] = res['n_checks']
                rep['cbmc_checks_ignored_float_class'] = res['n_ignored']
                is_canary = h.get('expect') == 'canary'
                is_bounded = bool(h.get('bounded'))
                kf_id = h.get('known_finding')
                for und in res['undecided']:
                    undecided.append(f'{u.name}:{hn}: {und}')
                missing = [o for o in want_obls if o not in res['obls']]
                if missing and not res['undecided']:
                    undecided.append(f'{u.name}:{hn}: vacuity guard: clauses declared but not checked: {missing}')
                for cv in want_covers:
                    if res['covers'].get(cv) != 'SATISFIED' and not is_canary:
                        undecided.append(f'{u.name}:{hn}: vacuity guard: cover {cv} is {res["covers"].get(cv)}')
                rep['covers'] = res['covers']
                if is_canary:
                    failed = [k for k, s in res['obls'].items() if s == 'FAILURE'] + [d['desc'] for d in res['panics']]
                    rep['status'] = 'canary-failed-as-required' if failed else 'CANARY DID NOT FAIL'
                    if not failed:
                        undecided.append(f'{u.name}:{hn}: vacuity guard: canary harness verified a false clause')
                    unit_reports.append(rep)
                    continue
                hv = []
                obls_here = dict(res['obls'])
                obls_here['no_panic'] = 'FAILURE' if res['panics'] else ('SUCCESS' if not res['undecided'] else 'UNDETERMINED')
                for clause, st in sorted(obls_here.items()):
                    oid = f'{u.name}/{hn}/{clause}'
                    rec = {'id': f'{pid}/{oid}', 'status': st, 'backend': 'kani', 'solver': rep['solver']}
                    if is_bounded:
                        rec['bounded'] = h['bounded']
                    if st == 'FAILURE':
                        detail = res['panics'] if clause == 'no_panic' else None
                        if kf_id and oid in kf_by_obl and kf_by_obl[oid]['id'] == kf_id:
                            known_hits.append(kf_by_obl[oid])
                            rec['status'] = 'KNOWN-FINDING ' + kf_id
                            rec['known_finding'] = True
                        else:
                            hv.append({'unit': u, 'harness': hn, 'clause': clause, 'oid': oid, 'detail': detail, 'kani_out': r['out'], 'krun': krun, 'solver': r.get('final_solver'), 'needs_native': r.get('needs_native'), 'smt_solver': r.get('smt_solver'),
                                       'descs': sorted(res['obl_desc'].get(clause, [])) if clause != 'no_panic' else [d['desc'] for d in res['panics']]})
                    elif st == 'UNREACHABLE':
                        undecided.append(f'{u.name}:{hn}: vacuity guard: clause {clause} unreachable')
                    elif st not in ('SUCCESS',):
                        if not res['undecided']:
                            undecided.append(f'{u.name}:{hn}: clause {clause} is {st}')
                    obligations.append(rec)
                if is_bounded:
                    bounded.append({'unit': u.name, 'harness': hn, 'bound': h['bounded']})
                if kf_id and not any(o.get('known_finding') for o in obligations if o['id'].startswith(f'{pid}/{u.name}/{hn}/')):
                    rep['note'] = f'known finding {kf_id} did not fail on this tree'
                rep['status'] = 'FAILED' if hv else 'verified'
                violations.extend(hv)
                unit_reports.append(rep)
            for kr, _ in built:
                samples.extend(kr.prov)
            for u in used_units:
                assumptions.extend(u.cfg.get('assumptions', []))
                trusted.extend(u.cfg.get('trusted', []))

        # ---------------- Verus ----------------
        for vname in vunits:
            vu = V.VUnit(vname)
            if vu.cfg.get('tier', 'quick') == 'thorough' and tier != 'thorough':
                continue
            vr = vu.run(keep=keep)
            checker_cmds.append(vr['cmd'])
            solver_total += vr.get('solver_s', 0)
            unit_reports.append(vr['report'])
            for und in vr['undecided']:
                undecided.append(f'{vname}: {und}')
            for o in vr['obligations']:
                oid = o['id']
                rec = {'id': f'{pid}/{oid}', 'status': o['status'], 'backend': 'verus/z3'}
                if o['status'] == 'FAILURE':
                    if oid in kf_by_obl:
                        known_hits.append(kf_by_obl[oid])
                        rec['status'] = 'KNOWN-FINDING ' + kf_by_obl[oid]['id']
                        rec['known_finding'] = True
                    else:
                        violations.append({'unit': vu, 'harness': None, 'clause': o['clause'], 'oid': oid, 'detail': o.get('detail'), 'verus_out': vr['out'], 'file_text': vr.get('file_text')})
                obligations.append(rec)
            samples.extend(vr['provenance'])
            assumptions.extend(vr['assumptions'])
            trusted.extend(vu.cfg.get('trusted', []))

        # ---------------- violations -> replay files ----------------
        vio_lines = []
        if violations and not undecided_blocks(undecided):
            os.makedirs(REPLAYS, exist_ok=True)
            for v in list(violations):
                path, has_input = make_replay(pid, v, v.get('krun'))
                if v.get('needs_native') and not has_input:
                    violations.remove(v)
                    undecided.append(f'{v["unit"].name}:{v["harness"]}: the SMT back end reports {v["clause"]} failing, the SAT back end could not re-decide it in time and no counterexample reproduced natively ({path})')
                    continue
                vio_lines.append(f'VIOLATION property={pid} replay={path}' + ('' if has_input else ' no-failing-input-found'))
    finally:
        for kr in kruns:
            kr.close()

    # ---------------- evidence ----------------
    is_proof = prop.get('category', 'proof') == 'proof'
    # a property claimed at level "other" (bounded checking of the real functions) counts its
    # bounded obligations - they are what it claims; at level "proof" they are never counted
    counted = [o for o in obligations if (not o.get('bounded') or not is_proof) and not o.get('known_finding')]
    discharged = [o for o in counted if o['status'] == 'SUCCESS']
    ev = {
        'property_id': pid, 'tier': tier, 'seed': seed, 'level': prop.get('category', 'proof'),
        'coverage': {
            'obligations': len(counted), 'discharged': len(discharged),
            'checker_cmd': '; '.join(sorted(set(re.sub(r'--harness \S+', '--harness <each>', c) for c in checker_cmds))),
            'trusted_base': sorted(set(trusted)),
            'obligation_list': obligations,
            'bounded_standins_not_counted': bounded,
            'known_findings_reported': [k['id'] for k in known_hits],
            'units': unit_reports,
            'solver_time_s': round(solver_total, 2),
            'samples': samples[:40],
            'not_decided_here': prop.get('not_decided', []),
            'repo': repo_state(),
            'undecided': undecided,
        },
        'assumptions': sorted(set(assumptions)),
        'wall_s': round(time.time() - t0, 2),
        'violations': len(violations),
    }
    if not is_proof:
        ev['coverage']['explanation'] = prop.get('level_text', '') + ' Every obligation listed is a BOUNDED check of the real functions (bounds in bounded_standins_not_counted); nothing here is claimed as proved for all inputs.'
    if not only:
        # seeded-change experiments (vx/seedtest.sh) must not overwrite the committed evidence
        dump_json(os.path.join(os.environ.get('VERIF_EVIDENCE_DIR', EVIDENCE), f'{pid}.json'), ev)

    for k in known_hits:
        print(f'KNOWN-FINDING: property={pid} {k["id"]} {k["what"]}')
    print(f'[{pid}] tier={tier} obligations={len(counted)} discharged={len(discharged)} bounded={len([o for o in obligations if o.get("bounded")])} '
          f'violations={len(violations)} undecided={len(undecided)} wall={ev["wall_s"]}s')
    if undecided:
        for u in undecided[:12]:
            print('UNDECIDED:', u[:2000])
        if len(undecided) > 12:
            print(f'UNDECIDED: ... and {len(undecided) - 12} more (see evidence file)')
    if violations and not undecided_blocks(undecided):
        for v in violations:
            print(f'  failed obligation: {pid}/{v["oid"]}')
        for l in vio_lines:
            print(l)
        return EXIT_VIOLATION
    if undecided or (violations and undecided_blocks(undecided)):
        for v in violations:
            print(f'  (failed, but run undecided) {pid}/{v["oid"]}')
        return EXIT_UNDECIDED
    if len(counted) == 0:
        print('UNDECIDED: vacuity guard: zero obligations')
        return EXIT_UNDECIDED
    return EXIT_OK


def all_contract_clauses(units):
    cc = {}
    for u in units:
        for c in u.cfg.get('contract', []):
            cc.update(c.get('clauses', {}))
    return cc


def undecided_blocks(undecided):
    """build failures / vacuity problems make the whole run untrustworthy; a timeout of an
    unrelated harness does not hide a concrete failed obligation"""
    return any(('build of the injected crate failed' in u or 'vacuity guard: canary' in u) for u in undecided)


def make_replay(pid, v, krun):
    u = v['unit']
    fname = re.sub(r'[^\w.\-]', '_', f'{pid}-{v["oid"]}') + '.json'
    path = os.path.join(REPLAYS, fname)
    rec = {'property': pid, 'obligation': f'{pid}/{v["oid"]}', 'unit': u.name, 'harness': v['harness'], 'clause': v['clause'],
           'repo': repo_state(), 'created': time.strftime('%Y-%m-%dT%H:%M:%SZ', time.gmtime())}
    has_input = False
    if v.get('verus_out') is not None:
        rec['backend'] = 'verus'
        rec['verifier_output'] = v['verus_out'][-6000:]
        rec['detail'] = v.get('detail')
        rec['note'] = 'Verus gives no counterexample; no paired Kani harness produced one: no-failing-input-found'
        rec['replay_cmd'] = f'python3 {VERIF}/vx/check.py --replay {path}'
        dump_json(path, rec)
        return path, False
    rec['backend'] = 'kani'
    rec['detail'] = v.get('detail')
    tail = v['kani_out'].split('RESULTS:', 1)
    rec['verifier_output'] = ('RESULTS:' + tail[1])[-8000:] if len(tail) == 2 else v['kani_out'][-8000:]
    try:
        wanted, twin_used = [], False
        if K.has_twin(u, v['harness']):
            # non-modular twin (no stubs): its counterexample is meaningful on the real code
            r = krun.run_harness(u, v['harness'], playback=True, twin=True, solver_override='cadical', timeout=300)
            tests = K.parse_playback(r['out'])
            wanted = [t for t in tests if t['class'] != 'cover' and not K.IGNORED_DESC.match(t['desc'])][:2]
            twin_used = bool(wanted)
            if not wanted:
                rec['twin_note'] = 'the non-modular twin harness produced no counterexample within 300 s (the change may be unobservable through this function, or the search timed out)'
        if not wanted:
            # an SMT-reported failure: ask the SMT back end itself for the trace first (fast), then SAT
            order = [v.get('smt_solver'), 'cadical'] if v.get('needs_native') else [v.get('solver')]
            tests = []
            for sv in order:
                r = krun.run_harness(u, v['harness'], playback=True, solver_override=sv, timeout=300)
                tests = K.parse_playback(r['out'])
                if tests:
                    break
            for t in tests:
                if t['desc'] in v.get('descs', []):
                    wanted.append(t)
            if not wanted:
                # Kani emits one test per distinct input: the failing check may share its input with a
                # cover point or another check; the native replay decides which inputs really fail
                wanted = [t for t in tests if not K.IGNORED_DESC.match(t['desc'])]
            wanted = wanted[:3]
        if wanted:
            rec['counterexample'] = [{'test': t['fn'], 'for_check': t['desc'], 'values_in_harness_order': t['values'], 'code': t['code']} for t in wanted]
            # native replay: same harness fn, real code, concrete values
            k2 = K.KaniRun(pid + '.replay', krun.units)
            try:
                k2.prepare(extra_tests={u.name: [t['code'] for t in wanted]})
                rc, out = k2.playback_native([t['fn'] for t in wanted])
            finally:
                k2.close()
            native = extract_native(out)
            rec['native_replay'] = {'rc': rc, 'reproduced': native_failed(out), 'output': native, 'harness_run': v['harness'] + ('__direct (non-modular twin, no stubs)' if twin_used else '')}
            has_input = rec['native_replay']['reproduced']
            if not has_input:
                rec['note'] = 'the verifier\'s counterexample did not fail when replayed natively (stub/contract-level failure); reported with no-failing-input-found'
        else:
            rec['note'] = 'verifier produced no concrete playback for this check'
            rec['playback_run_tail'] = (r.get('out') or '')[-1500:] if isinstance(r, dict) else ''
    except Exception as e:
        rec['note'] = f'playback failed: {e}'
    rec['replay_cmd'] = f'python3 {VERIF}/vx/check.py --replay {path}'
    dump_json(path, rec)
    return path, has_input


def native_failed(out):
    """a native replay counts only if the real code / a named clause panicked - not Kani's own
    'concrete values left over' bookkeeping panic"""
    for m in re.finditer(r'panicked at ([^\n]*):\n([^\n]*)', out):
        if 'concrete_playback.rs' in m.group(1):
            continue
        return True
    return False


def extract_native(out):
    keep = []
    for l in out.splitlines():
        if l.startswith('test ') or 'panicked at' in l or l.startswith('OBL:') or l.startswith('test result') or \
                (keep and 'panicked at' in keep[-1]):
            keep.append(l)
    return '\n'.join(keep)[-4000:]


def do_replay(path):
    rec = json.load(open(path))
    print(f'replay of {rec["obligation"]} (recorded on repo {rec.get("repo", {}).get("head", "?")[:10]})')
    if rec.get('backend') != 'kani' or not rec.get('counterexample'):
        print('this replay file carries no failing input (no-failing-input-found); verifier output follows')
        print(rec.get('verifier_output', ''))
        print('re-running the obligation on the current tree instead:')
        return do_check(rec['property'], 'quick', only=rec['unit'] if rec.get('backend') != 'kani' else f'{rec["unit"]}:{rec["harness"]}')
    props = load_props()
    u = K.KUnit(rec['unit'])
    # all units that share the scratch copy are not needed for replay: only this one (+ what it requires)
    k = K.KaniRun(rec['property'] + '.replay', [u] + [K.KUnit(r) for r in u.requires])
    try:
        k.prepare(extra_tests={u.name: [c['code'] for c in rec['counterexample']]})
        rc, out = k.playback_native([c['test'] for c in rec['counterexample']])
    finally:
        k.close()
    for c in rec['counterexample']:
        print('inputs (in harness order):', [(x['shown_as']) for x in c['values_in_harness_order']])
    print(extract_native(out))
    if rc != 0 and native_failed(out):
        print(f'REPRODUCED: the recorded input still violates {rec["obligation"]} on the current tree')
        return EXIT_VIOLATION
    if rc != 0:
        print('replay could not be built/run:\n' + out[-3000:])
        return EXIT_UNDECIDED
    print('not reproduced on the current tree')
    return EXIT_OK


def main():
    ap = argparse.ArgumentParser()
    ap.add_argument('property', nargs='?')
    ap.add_argument('--tier', default=os.environ.get('VERIF_TIER', 'quick'))
    ap.add_argument('--replay')
    ap.add_argument('--keep', action='store_true')
    ap.add_argument('--only', help='substring filter on unit:harness (debugging; evidence not written)')
    a = ap.parse_args()
    try:
        if a.replay:
            sys.exit(do_replay(a.replay))
        sys.exit(do_check(a.property, a.tier, keep=a.keep, only=a.only))
    except (Undecided, rustscan.LostAnchor) as e:
        print('UNDECIDED:', e)
        sys.exit(EXIT_UNDECIDED)
    except Exception:
        traceback.print_exc()
        print('UNDECIDED: internal error in the checker')
        sys.exit(EXIT_UNDECIDED)


if __name__ == '__main__':
    main()
