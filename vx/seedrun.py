#!/usr/bin/env python3
"""seedrun.py <seed-src-dir> <PROPERTY> <n>
Confirms a seeded change (from an independent sub-agent) and runs the property's check against it,
WITHOUT touching /repo: everything happens in a scratch copy (VERIF_REPO).
  1. copy /repo's HEAD working tree to scratch, confirm the demo passes on the clean copy;
  2. apply patch.diff, confirm the existing suite still has the baseline outcome (142 pass,
     only tests::general_test::date_tests fails) and that the demo now fails;
  3. run `check.py <PROPERTY>` with VERIF_REPO=<scratch with the change>; record the outcome.
Writes /verif/seeded/<PROPERTY>-<n>/{patch.diff,demo.rs,notes.md,meta.json}."""
import json, os, re, shutil, subprocess, sys, tempfile, time

VERIF = os.path.dirname(os.path.dirname(os.path.abspath(__file__)))
src, prop, n = sys.argv[1], sys.argv[2], sys.argv[3]
sid = f'{prop}-{n}'
out = os.path.join(VERIF, 'seeded', sid)
os.makedirs(out, exist_ok=True)
for f in ['patch.diff', 'demo.rs', 'notes.md']:
    if os.path.exists(os.path.join(src, f)):
        shutil.copy(os.path.join(src, f), os.path.join(out, f))

def sh(cmd, cwd=None, timeout=1800, env=None):
    e = dict(os.environ); e['CARGO_NET_OFFLINE'] = 'true'
    if env: e.update(env)
    p = subprocess.run(cmd, cwd=cwd, shell=True, capture_output=True, text=True, timeout=timeout, env=e)
    return p.returncode, p.stdout + p.stderr

def test_outcome(out_text):
    m = re.search(r'test result: \w+\. (\d+) passed; (\d+) failed', out_text)
    failed = sorted(set(re.findall(r'^test (\S+) \.\.\. FAILED', out_text, re.M)))
    return (int(m.group(1)), int(m.group(2)), failed) if m else (None, None, failed)

scratch = tempfile.mkdtemp(prefix=f'scverif.seed.{sid}.', dir='/var/tmp')
meta = {'seed': sid, 'breaks_property': prop, 'source': 'independent sub-agent given only the property text and a scratch worktree', 'ran': []}
try:
    subprocess.run(['rsync', '-a', '--exclude', '/target', '--exclude', '/.git', '/repo/', scratch + '/'], check=True)
    demo = open(os.path.join(out, 'demo.rs')).read()
    gt = os.path.join(scratch, 'src/tests/general_test.rs')
    clean_gt = open(gt).read()
    # 1. clean + demo
    open(gt, 'w').write(clean_gt + '\n' + demo)
    rc, o = sh('cargo test --offline --lib 2>&1 | tail -400', cwd=scratch)
    p, f, failed = test_outcome(o)
    meta['clean_tree_with_demo'] = {'passed': p, 'failed': f, 'failed_tests': failed}
    meta['ran'].append('clean copy of /repo HEAD + demo.rs appended to src/tests/general_test.rs: cargo test --offline --lib')
    demo_ok_clean = failed == ['tests::general_test::date_tests']
    # 2. apply patch
    open(gt, 'w').write(clean_gt)
    rc, o = sh(f'patch -p1 --no-backup-if-mismatch < {out}/patch.diff', cwd=scratch)
    meta['patch_applies'] = rc == 0
    if rc != 0:
        meta['patch_output'] = o[-1500:]
        raise SystemExit
    rc, o = sh('cargo test --offline --lib 2>&1 | tail -400', cwd=scratch)
    p, f, failed = test_outcome(o)
    meta['changed_tree_suite'] = {'passed': p, 'failed': f, 'failed_tests': failed}
    meta['ran'].append('changed copy: cargo test --offline --lib (existing suite only)')
    suite_same = (p == 142 and failed == ['tests::general_test::date_tests'])
    patched_gt = open(gt).read()
    open(gt, 'w').write(patched_gt + '\n' + demo)
    rc, o = sh('cargo test --offline --lib 2>&1 | tail -400', cwd=scratch)
    p, f, failed = test_outcome(o)
    meta['changed_tree_with_demo'] = {'passed': p, 'failed': f, 'failed_tests': failed}
    meta['ran'].append('changed copy + demo.rs: cargo test --offline --lib')
    demo_fails = any(t != 'tests::general_test::date_tests' for t in failed)
    open(gt, 'w').write(patched_gt)
    shutil.rmtree(os.path.join(scratch, 'target'), ignore_errors=True)
    meta['confirmed'] = bool(demo_ok_clean and suite_same and demo_fails)
    # 3. the check
    props = subprocess.run(['python3', '-c', 'import tomllib;print("%s" in [k for k,v in tomllib.load(open("%s/props.toml","rb")).items() if not v.get("not_applicable")])' % (prop, VERIF)], capture_output=True, text=True).stdout.strip()
    if props == 'True':
        t0 = time.time()
        rc, o = sh(f'python3 {VERIF}/vx/check.py {prop} --tier quick', timeout=5400,
                   env={'VERIF_REPO': scratch, 'VERIF_EVIDENCE_DIR': f'/tmp/seed-evidence/{sid}'})
        meta['check'] = {'cmd': f'VERIF_REPO=<changed copy> python3 vx/check.py {prop} --tier quick', 'exit': rc, 'wall_s': round(time.time() - t0),
                         'failed_obligations': re.findall(r'failed obligation: (\S+)', o),
                         'violation_lines': re.findall(r'^(VIOLATION .*)$', o, re.M), 'undecided': re.findall(r'^UNDECIDED: (.*)$', o, re.M)[:5]}
        meta['detected'] = rc == 1
        meta['ran'].append(meta['check']['cmd'])
        # keep the native replay outcome of the first replay file
        for vl in meta['check']['violation_lines'][:1]:
            m = re.search(r'replay=(\S+)', vl)
            if m and os.path.exists(m.group(1)):
                r = json.load(open(m.group(1)))
                meta['check']['first_replay'] = {'obligation': r.get('obligation'), 'native_replay': (r.get('native_replay') or {}).get('reproduced'),
                                                 'inputs': [[v['shown_as'] for v in c['values_in_harness_order']] for c in r.get('counterexample', [])][:1]}
    else:
        meta['check'] = None
        meta['detected'] = False
        meta['why_not_run'] = f'{prop} is not claimed (MANIFEST.not_applicable)'
finally:
    m = re.search(r'(?s)\*\*?(?:Trigger|trigger)[^\n]*', open(os.path.join(out, 'notes.md')).read()) if os.path.exists(os.path.join(out, 'notes.md')) else None
    json.dump(meta, open(os.path.join(out, 'meta.json'), 'w'), indent=1)
    shutil.rmtree(scratch, ignore_errors=True)
print(sid, 'confirmed=', meta.get('confirmed'), 'detected=', meta.get('detected'), (meta.get('check') or {}).get('failed_obligations'))
