import hashlib, json, os, shutil, signal, subprocess, tempfile, threading, time, tomllib

VERIF = os.path.dirname(os.path.dirname(os.path.abspath(__file__)))
REPO = os.environ.get('VERIF_REPO', '/repo')
UNITS = os.path.join(VERIF, 'units')
REPLAYS = os.path.join(VERIF, 'replays')
EVIDENCE = os.path.join(VERIF, 'evidence')
SCRATCH_BASE = os.environ.get('VERIF_SCRATCH', '/var/tmp')

EXIT_OK, EXIT_VIOLATION, EXIT_UNDECIDED = 0, 1, 2


class Undecided(Exception):
    """tool limit, lost anchor, timeout, vacuity guard: never an alarm (exit 2)"""


def load_toml(path):
    with open(path, 'rb') as f:
        return tomllib.load(f)


def sha256(s: str) -> str:
    return hashlib.sha256(s.encode()).hexdigest()


def read(path):
    with open(path, encoding='utf-8') as f:
        return f.read()


def write(path, s):
    os.makedirs(os.path.dirname(path), exist_ok=True)
    with open(path, 'w', encoding='utf-8') as f:
        f.write(s)


def make_scratch(tag):
    os.makedirs(SCRATCH_BASE, exist_ok=True)
    d = tempfile.mkdtemp(prefix=f'scverif.{tag}.', dir=SCRATCH_BASE)
    return d


def copy_repo(dst):
    """copy /repo's *working tree* (not HEAD) without target/ and .git/"""
    subprocess.run(['rsync', '-a', '--exclude', '/target', '--exclude', '/.git', REPO + '/', dst + '/'], check=True)
    os.makedirs(os.path.join(dst, '.cargo'), exist_ok=True)
    write(os.path.join(dst, '.cargo', 'config.toml'), '[net]\noffline = true\n')


def rm_scratch(d):
    if d and os.path.isdir(d) and os.path.basename(d).startswith('scverif.'):
        shutil.rmtree(d, ignore_errors=True)


def _descendants(pid):
    kids = {}
    for p in os.listdir('/proc'):
        if not p.isdigit():
            continue
        try:
            with open(f'/proc/{p}/stat') as f:
                st = f.read()
            ppid = int(st.rsplit(')', 1)[1].split()[1])
            kids.setdefault(ppid, []).append(int(p))
        except Exception:
            pass
    out, stack = [], [pid]
    while stack:
        x = stack.pop()
        out.append(x)
        stack.extend(kids.get(x, []))
    return out


def _rss_kb(pids):
    tot = 0
    for p in pids:
        try:
            with open(f'/proc/{p}/statm') as f:
                tot += int(f.read().split()[1]) * 4
        except Exception:
            pass
    return tot


def run(cmd, cwd=None, timeout=None, env=None, rss_limit_gb=None):
    """run a command in its own process group with wall-clock limit and RSS watchdog.
    returns (rc, output, wall_s, peak_rss_mb, reason) ; rc None when killed"""
    e = dict(os.environ)
    e.setdefault('CARGO_NET_OFFLINE', 'true')
    e['CARGO_TERM_COLOR'] = 'never'
    if env:
        e.update(env)
    t0 = time.time()
    p = subprocess.Popen(cmd, cwd=cwd, env=e, stdout=subprocess.PIPE, stderr=subprocess.STDOUT,
                         text=True, errors='replace', start_new_session=True)
    state = {'peak': 0, 'reason': None}
    stop = threading.Event()

    def watch():
        while not stop.wait(1.5):
            rss = _rss_kb(_descendants(p.pid))
            state['peak'] = max(state['peak'], rss)
            if rss_limit_gb and rss > rss_limit_gb * 1024 * 1024:
                state['reason'] = f'rss>{rss_limit_gb}GB'
                _kill(p)
                return
            if timeout and time.time() - t0 > timeout:
                state['reason'] = f'timeout>{timeout}s'
                _kill(p)
                return

    th = threading.Thread(target=watch, daemon=True)
    th.start()
    out, _ = p.communicate()
    stop.set()
    rc = p.returncode if state['reason'] is None else None
    return rc, out, time.time() - t0, state['peak'] // 1024, state['reason']


def _kill(p):
    try:
        os.killpg(p.pid, signal.SIGKILL)
    except Exception:
        pass


def dump_json(path, obj):
    os.makedirs(os.path.dirname(path), exist_ok=True)
    tmp = path + '.tmp'
    with open(tmp, 'w') as f:
        json.dump(obj, f, indent=1, sort_keys=False)
        f.write('\n')
    os.replace(tmp, path)
