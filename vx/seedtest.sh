#!/bin/sh
# usage: vx/seedtest.sh <property> <patch.diff> [extra check args]  -- apply a seeded change to /repo, run the check, undo
p="$1"; d="$2"; shift 2
git -C /repo apply "$d" || { echo "patch does not apply"; exit 3; }
VERIF_EVIDENCE_DIR=/tmp/seed-evidence python3 /verif/vx/check.py "$p" "$@"; rc=$?
git -C /repo checkout -- .
echo "seedtest rc=$rc"
exit $rc
