class VUnit:
    def __init__(self, name):
        raise NotImplementedError
