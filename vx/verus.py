"""V-extract / V-real / V-data back end.

A unit is a template (units/v/<name>.rs) with placeholders
    /*@FN <id>*/      replaced by a function extracted verbatim from /repo (working tree),
                      its signature replaced by the stated `new_sig`, the listed regex
                      rewrites applied to the body, contract spliced between signature
                      and body, loop specs spliced after the n-th loop header;
    /*@DATA <id>*/    replaced by the output of a generator in vx/vdata.py (tables read
                      from config.json).
Contract / invariant lines end in `// OBL:<clause>`; a Verus error whose primary span
is on such a line is a failure of that named obligation.  Any other error inside an
extracted function is that function's `body_safety` obligation (index, overflow,
callee precondition, termination).  Errors in scaffold-only code, rlimit, timeouts,
unsupported constructs are undecided (exit 2)."""
import json, os, re, time
from . import rustscan
from .common import *

GENERIC_REWRITES = [
    (r'(?m)^[ \t]*log::(?:debug|info|warn|error|trace)!\((?:[^;]|\n)*?\);[ \t]*\n', '', 'R1 drop log::*! statement'),
]


def normsig(s):
    return re.sub(r'\s+', ' ', s).strip()


class VUnit:
    def __init__(self, name):
        self.name = name
        self.cfg = load_toml(os.path.join(UNITS, name + '.toml'))
        assert self.cfg.get('backend') == 'verus', name
        self.template = read(os.path.join(UNITS, self.cfg['template']))

    def generate(self):
        prov, fired = [], []
        text = self.template
        fn_ids = []
        for ex in self.cfg.get('extract', []):
            src = read(os.path.join(REPO, ex['file']))
            it = rustscan.find_fn(src, ex['fn'], ex.get('impl'))
            if 'orig_sig' in ex and normsig(it.signature) != normsig(ex['orig_sig']):
                raise rustscan.LostAnchor(f'{ex["file"]}: signature of {ex["fn"]} changed: `{normsig(it.signature)}` (unit expects `{normsig(ex["orig_sig"])}`)')
            body = src[it.body_open:it.body_close + 1]
            orig_body = body
            for pat, rep, why in GENERIC_REWRITES:
                body, n = re.subn(pat, rep, body)
                if n:
                    fired.append(f'{ex["id"]}: {why} x{n}')
            for rw in ex.get('rewrites', []):
                pat, rep = rw[0], rw[1]
                body, n = re.subn(pat, rep, body, flags=re.S)
                minimum = rw[3] if len(rw) > 3 else 0
                if n < minimum:
                    raise rustscan.LostAnchor(f'{ex["id"]}: rewrite /{pat}/ expected >= {minimum} matches, found {n}')
                if n:
                    fired.append(f'{ex["id"]}: {rw[2] if len(rw) > 2 else "rewrite"}: /{pat}/ -> `{rep}` x{n}')
            # loop specs: keyed by ordinal
            for lp in sorted(ex.get('loop', []), key=lambda l: -l['n']):
                fake = rustscan.Item(body, 0, 0, 0, len(body) - 1)
                kw, brace = rustscan.nth_loop(body, fake, lp['n'])
                body = body[:brace] + '\n' + lp['spec'].rstrip() + '\n' + ' ' * 12 + body[brace:]
            for ins in ex.get('insert_after', []):
                k = body.find(ins['anchor'])
                if k < 0:
                    raise rustscan.LostAnchor(f'{ex["id"]}: anchor `{ins["anchor"]}` for ghost insertion not found')
                k = body.find('\n', k)
                body = body[:k + 1] + ins['text'].rstrip() + '\n' + body[k + 1:]
            for ins in ex.get('insert_before', []):
                k = body.rfind(ins['anchor']) if ins.get('last', True) else body.find(ins['anchor'])
                if k < 0:
                    raise rustscan.LostAnchor(f'{ex["id"]}: anchor `{ins["anchor"]}` for ghost insertion not found')
                k = body.rfind('\n', 0, k)
                body = body[:k + 1] + ins['text'].rstrip() + '\n' + body[k + 1:]
            fn_text = ex['new_sig'].rstrip() + '\n' + ex.get('contract', '').rstrip() + '\n' + body
            marker = f'/*@FN {ex["id"]}*/'
            if marker not in text:
                raise Undecided(f'{self.name}: marker {marker} not in template')
            text = text.replace(marker, f'/*@BEGIN {ex["id"]}*/\n' + fn_text + f'\n/*@END {ex["id"]}*/')
            fn_ids.append(ex['id'])
            prov.append({'kind': 'verus-extract', 'id': ex['id'], 'file': ex['file'], 'fn': ex['fn'], 'impl': ex.get('impl', ''),
                         'lines': list(it.line_span()), 'sha256_of_source_item': sha256(it.text), 'signature_in_repo': normsig(it.signature),
                         'signature_verified': normsig(ex['new_sig'])})
        for dt in self.cfg.get('data', []):
            from . import vdata
            gen = getattr(vdata, dt['generator'])
            out, p = gen(dt)
            marker = f'/*@DATA {dt["id"]}*/'
            if marker not in text:
                raise Undecided(f'{self.name}: marker {marker} not in template')
            text = text.replace(marker, out)
            prov.extend(p)
        for chk in self.cfg.get('source_fact', []):
            src = read(os.path.join(REPO, chk['file']))
            hay = rustscan.mask(src) if chk.get('masked', True) else src
            n = len(re.findall(chk['regex'], hay))
            if 'within' in chk:
                spans = []
                for w in chk['within']:
                    it = rustscan.find_fn(src, w['fn'], w.get('impl'))
                    spans.append((it.body_open, it.body_close))
                outside = [m.start() for m in re.finditer(chk['regex'], hay) if not any(a <= m.start() <= b for a, b in spans)]
                if outside:
                    raise rustscan.LostAnchor(f'{chk["file"]}: source fact `{chk["why"]}`: /{chk["regex"]}/ also occurs outside the extracted functions (line {src.count(chr(10), 0, outside[0]) + 1})')
            elif n != chk['count']:
                raise rustscan.LostAnchor(f'{chk["file"]}: source fact `{chk["why"]}`: /{chk["regex"]}/ occurs {n}x, unit expects {chk["count"]}')
            prov.append({'kind': 'source-fact', 'file': chk['file'], 'regex': chk['regex'], 'count': n, 'why': chk['why']})
        return text, prov, fired, fn_ids

    def run(self, keep=False):
        text, prov, fired, fn_ids = self.generate()
        d = make_scratch('v.' + self.name)
        path = os.path.join(d, re.sub(r'\W', '_', self.name) + '.rs')
        write(path, text)
        cmd = ['verus', path, '--output-json', '--time', '--error-format=json'] + self.cfg.get('args', [])
        try:
            rc, out, wall, rss, reason = run_split(cmd, cwd=d, timeout=self.cfg.get('timeout', 600))
        finally:
            if not keep:
                rm_scratch(d)
        stdout, stderr = out
        lines = text.split('\n')
        # line -> fn id
        owner = {}
        cur = None
        for i, l in enumerate(lines, 1):
            m = re.search(r'/\*@BEGIN (.*?)\*/', l)
            if m:
                cur = m.group(1)
            owner[i] = cur
            if re.search(r'/\*@END ', l):
                cur = None
        obl_at = {}
        for i, l in enumerate(lines, 1):
            m = re.search(r'//\s*OBL:([\w.\-]+)', l)
            if m:
                obl_at[i] = m.group(1)
        canary_lines = {i for i, l in enumerate(lines, 1) if '// CANARY' in l}
        # named obligations: all OBL tags (owner may be None for lemma-level clauses)
        obligations = {}
        for i, name in obl_at.items():
            o = owner.get(i) or self.lemma_owner(lines, i)
            obligations[f'{self.name}/{o}/{name}'] = 'SUCCESS'
        for fid in fn_ids:
            obligations[f'{self.name}/{fid}/body_safety'] = 'SUCCESS'
        undecided, details = [], {}
        summary = None
        try:
            summary = json.loads(stdout[stdout.index('{'):]) if '{' in stdout else None
        except Exception:
            summary = None
        if reason:
            undecided.append(f'verus killed: {reason}')
        diags = []
        for l in stderr.split('\n'):
            l = l.strip()
            if l.startswith('{') and '"$message_type"' in l:
                try:
                    diags.append(json.loads(l))
                except Exception:
                    pass
        canary_seen = False
        for dg in diags:
            if dg.get('level') != 'error':
                continue
            msg = dg.get('message', '')
            if msg.startswith('aborting due to'):
                continue
            prim = [s for s in dg.get('spans', []) if s.get('is_primary')]
            allspans = dg.get('spans', [])
            pl = prim[0]['line_start'] if prim else None
            span_lines = [s['line_start'] for s in allspans]
            if any(sl in canary_lines for sl in span_lines) or (pl and self.in_canary(lines, pl)):
                canary_seen = True
                continue
            if re.search(r'rlimit|resource limit|timed? ?out|not supported|unsupported|The verifier does not yet support', msg, re.I):
                undecided.append(f'verus: {msg} @ line {pl}')
                continue
            named = [obl_at[sl] for sl in span_lines if sl in obl_at]
            fn_owner = None
            for sl in ([pl] if pl else []) + span_lines:
                if owner.get(sl):
                    fn_owner = owner[sl]
                    break
            rendered = dg.get('rendered', msg)
            if named:
                tagline = [sl for sl in span_lines if sl in obl_at][0]
                o = owner.get(tagline) or fn_owner or self.lemma_owner(lines, tagline)
                oid = f'{self.name}/{o}/{named[0]}'
                obligations[oid] = 'FAILURE'
                details[oid] = rendered
            elif fn_owner:
                oid = f'{self.name}/{fn_owner}/body_safety'
                obligations[oid] = 'FAILURE'
                details[oid] = rendered
            elif summary is None or dg.get('code') or 'error[E' in rendered:
                undecided.append(f'verus front-end error (not a proof failure): {rendered[:1500]}')
            else:
                undecided.append(f'verus error in scaffold-only code (brittle proof, not a code violation): {rendered[:1500]}')
        if canary_lines and not canary_seen and not undecided:
            undecided.append('vacuity guard: canary lemma with a false ensures was not rejected')
        verified = errors = None
        smt_ms = 0
        if summary:
            vr = summary.get('verification-results', {})
            verified, errors = vr.get('verified'), vr.get('errors')
            smt_ms = summary.get('times-ms', {}).get('smt', {}).get('total', 0)
            if vr.get('encountered-vir-error'):
                undecided.append('verus: VIR error (construct outside the supported subset)')
        else:
            if not undecided:
                undecided.append('verus produced no JSON summary: ' + (stderr[-1500:] or stdout[-500:]))
        exp = self.cfg.get('expect_verified')
        if exp is not None and verified is not None and not any(s == 'FAILURE' for s in obligations.values()) and verified != exp and not undecided:
            undecided.append(f'vacuity guard: verus verified {verified} items, unit file records {exp}')
        assumptions = scan_assumptions(text, self.name)
        obl_list = [{'id': k, 'clause': k.rsplit('/', 1)[1], 'status': v, 'detail': details.get(k)} for k, v in sorted(obligations.items())]
        report = {'unit': self.name, 'backend': 'verus/z3', 'wall_s': round(wall, 2), 'verified_items': verified, 'errors': errors,
                  'smt_ms': smt_ms, 'rewrites_fired': fired, 'cmd': ' '.join(['verus', '<generated>/' + os.path.basename(path)] + cmd[2:]),
                  'generated_file_sha256': sha256(text), 'status': 'FAILED' if any(o['status'] == 'FAILURE' for o in obl_list) else ('undecided' if undecided else 'verified')}
        return {'cmd': report['cmd'], 'report': report, 'obligations': obl_list, 'undecided': undecided, 'provenance': prov,
                'assumptions': assumptions, 'solver_s': smt_ms / 1000.0, 'out': stderr_render(diags) + '\n' + json.dumps(summary.get('verification-results') if summary else None),
                'file_text': text}

    @staticmethod
    def lemma_owner(lines, i):
        """name of the enclosing fn of line i in scaffold code"""
        for k in range(i - 1, -1, -1):
            m = re.match(r'\s*(?:pub\s+)?(?:proof\s+|spec\s+|exec\s+)?fn\s+(\w+)', lines[k])
            if m:
                return m.group(1)
        return 'scaffold'

    @staticmethod
    def in_canary(lines, i):
        for k in range(i - 1, max(0, i - 12), -1):
            if '// CANARY' in lines[k]:
                return True
            if re.match(r'\s*(?:pub\s+)?(?:proof\s+|spec\s+)?fn\s', lines[k]) and k != i - 1:
                return '// CANARY' in lines[k]
        return False


def stderr_render(diags):
    return '\n'.join(d.get('rendered', d.get('message', '')) for d in diags if d.get('level') == 'error')


def scan_assumptions(text, unit):
    """mechanical scan of the generated file for everything that is assumed, not proved"""
    out = []
    lines = text.split('\n')
    for i, l in enumerate(lines):
        if 'external_body' in l or 'assume_specification' in l or re.search(r'\bassume\s*\(', l) or re.search(r'\badmit\s*\(', l) or 'uninterp' in l or 'external_type_specification' in l:
            # the item named on this or the next lines
            nm = ''
            for k in range(i, min(i + 4, len(lines))):
                m = re.search(r'\b(?:fn|struct)\s+(\w+)', lines[k])
                if m:
                    nm = m.group(1)
                    break
            kind = 'external_body' if 'external_body' in l else ('uninterp spec fn' if 'uninterp' in l else ('assume' if 'assume' in l else 'admit/assume_specification'))
            out.append(f'verus unit {unit}: {kind} `{nm}` is an assumed contract (scaffold), not proved')
    return sorted(set(out))


def run_split(cmd, cwd=None, timeout=None):
    import subprocess, threading
    e = dict(os.environ)
    t0 = time.time()
    try:
        p = subprocess.run(cmd, cwd=cwd, env=e, capture_output=True, text=True, timeout=timeout)
        return p.returncode, (p.stdout, p.stderr), time.time() - t0, 0, None
    except subprocess.TimeoutExpired as ex:
        return None, (ex.stdout or '', ex.stderr or ''), time.time() - t0, 0, f'timeout>{timeout}s'
