"""K-inplace / K-slice back end: inject contracts + harness modules into a scratch
copy of /repo's working tree, run cargo-kani on the real crate, classify results."""
import os, re, time, json
from concurrent.futures import ThreadPoolExecutor
from . import rustscan
from .common import *

KANI_Z = ['-Z', 'function-contracts', '-Z', 'stubbing']
IGNORED_DESC = re.compile(r'^(NaN on |arithmetic overflow on floating-point )')


def mod_path(host):
    p = host[len('src/'):] if host.startswith('src/') else host
    p = p[:-3]
    parts = p.split('/')
    if parts[-1] in ('mod', 'lib'):
        parts = parts[:-1]
    return '::'.join(parts)


class KUnit:
    def __init__(self, name):
        self.name = name
        self.cfg = load_toml(os.path.join(UNITS, name + '.toml'))
        assert self.cfg.get('backend') == 'kani', name
        self.host = self.cfg['host']
        self.module_src = read(os.path.join(UNITS, self.cfg['module']))
        self.harness = {h['name']: h for h in self.cfg.get('harness', [])}
        self.modname = 'verif_' + re.sub(r'\W', '_', name)
        self.requires = self.cfg.get('requires', [])

    def full(self, h):
        mp = mod_path(self.host)
        return (mp + '::' if mp else '') + self.modname + '::' + h

    def harness_obls(self, h):
        """OBL:/COVER: names that occur in the text of harness fn h (and helpers it names via `uses`)"""
        item = rustscan.find_fn(self.module_src, h)
        texts = [item.text]
        for u in self.harness[h].get('uses', []):
            texts.append(rustscan.find_fn(self.module_src, u).text)
        t = '\n'.join(texts)
        return sorted(set(re.findall(r'"OBL:([\w.\-]+)"', t))), sorted(set(re.findall(r'"COVER:([\w.\-]+)"', t)))


def inject(scratch, units, extra_tests=None):
    """apply contracts, slices and harness modules of `units` to the scratch copy.
    returns provenance records (what was extracted from where)."""
    prov = []
    need_support = False
    appended = {}
    for u in units:
        cfg = u.cfg
        # anchors
        for a in cfg.get('anchor', []):
            f = a.get('file', u.host)
            it = rustscan.find_fn(read(os.path.join(scratch, f)), a['fn'], a.get('impl'))
            prov.append({'kind': 'function-under-contract', 'file': f, 'fn': a['fn'], 'impl': a.get('impl', ''),
                         'lines': list(it.line_span()), 'sha256': sha256(it.text)})
        # slices (read before any edit of that file)
        body = u.module_src
        spans_by_fn = {}
        for s in cfg.get('slice', []):
            f = s.get('file', u.host)
            src = read(os.path.join(REPO, f))
            it = rustscan.find_fn(src, s['fn'], s.get('impl'))
            kind = s.get('kind', 'let')
            if kind == 'let':
                a, b = rustscan.find_let(src, it, s['key'], s.get('nth', 0))
            elif kind == 'expr':
                a, b = rustscan.find_expr_after(src, it, s['key'], s.get('nth', 0))
            elif kind == 'call':
                a, b = rustscan.find_call(src, it, s['key'], s.get('nth', 0))
            elif kind == 'body':
                a, b = it.body_open + 1, it.body_close
            elif kind == 'callat':
                # key must end with the opening parenthesis of the call expression to cut out
                ms = list(re.finditer(s['key'], rustscan.mask(src)[it.body_open:it.body_close]))
                if len(ms) <= s.get('nth', 0):
                    raise rustscan.LostAnchor(f'unit {u.name}: /{s["key"]}/ (#{s.get("nth", 0)}) not found in fn {s["fn"]}')
                mm = ms[s.get('nth', 0)]
                a = it.body_open + mm.start()
                b = rustscan.match_brace(rustscan.mask(src), it.body_open + mm.end() - 1) + 1
            elif kind == 'regex':
                ms = list(re.finditer(s['key'], rustscan.mask(src)[it.body_open:it.body_close]))
                if len(ms) <= s.get('nth', 0):
                    raise rustscan.LostAnchor(f'unit {u.name}: /{s["key"]}/ (#{s.get("nth", 0)}) not found in fn {s["fn"]}')
                a, b = it.body_open + ms[s.get('nth', 0)].start(), it.body_open + ms[s.get('nth', 0)].end()
            else:
                raise Undecided(f'unit {u.name}: unknown slice kind {kind}')
            spans_by_fn.setdefault((f, s['fn'], s.get('impl')), []).append((a, b))
            text = src[a:b].strip()
            marker = f'/*@SLICE {s["name"]}*/'
            if marker not in body:
                raise Undecided(f'unit {u.name}: marker {marker} missing in module')
            body = body.replace(marker, text)
            prov.append({'kind': 'slice', 'name': s['name'], 'file': f, 'fn': s['fn'], 'what': f'{kind} {s["key"]}',
                         'lines': [src.count('\n', 0, a) + 1, src.count('\n', 0, b) + 1], 'sha256': sha256(text),
                         'text': text if len(text) < 600 else text[:600] + '…'})
        # residual guard: the part of a sliced function that is NOT inside a slice is pinned by hash,
        # so a statement added in front of / behind the verified kernel cannot pass unnoticed
        for (f, fn, impl), spans in spans_by_fn.items():
            h = residual_hash(read(os.path.join(REPO, f)), fn, impl, spans)
            want = cfg.get('residual', {}).get(fn)
            prov.append({'kind': 'slice-residual', 'file': f, 'fn': fn, 'sha256_of_function_text_outside_the_slices': h, 'pinned': want})
            if want and want != h:
                raise Undecided(f'unit {u.name}: {f}::{fn} changed OUTSIDE its verified slice(s) (residual {h[:12]} != pinned {want[:12]}): '
                                f'the slices no longer represent the function; review the unit and re-pin with vx/residuals.py')
        # contracts in place
        for c in cfg.get('contract', []):
            f = c.get('file', u.host)
            p = os.path.join(scratch, f)
            src = read(p)
            it = rustscan.find_fn(src, c['fn'], c.get('impl'))
            ls = rustscan._line_start(src, it.sig_start)
            indent = src[ls:it.sig_start]
            lines = ''.join(f'{indent}#[cfg_attr(kani, {a})]\n' for a in c['attrs'])
            src = src[:ls] + lines + src[ls:]
            write(p, src)
            prov.append({'kind': 'contract-in-place', 'file': f, 'fn': c['fn'], 'attrs': c['attrs']})
        body = add_direct_twins(body)
        tests = ''
        if extra_tests and u.name in extra_tests:
            tests = '\n'.join(extra_tests[u.name])
        mod = (f'\n\n#[cfg(kani)]\n#[allow(unused_imports, dead_code, unused_variables, unused_mut, non_snake_case, deprecated, unused_parens)]\n'
               f'mod {u.modname} {{\n    use super::*;\n    use alloc::{{vec, vec::Vec}};\n{body}\n{tests}\n}}\n')
        appended.setdefault(u.host, []).append(mod)
        if cfg.get('support', True):
            need_support = True
    for host, mods in appended.items():
        p = os.path.join(scratch, host)
        write(p, read(p) + ''.join(mods))
    if need_support:
        write(os.path.join(scratch, 'src', 'verif_support.rs'), read(os.path.join(UNITS, 'k', 'verif_support.rs')))
        p = os.path.join(scratch, 'src', 'lib.rs')
        write(p, read(p) + '\n#[cfg(kani)] pub(crate) mod verif_support;\n')
    return prov


def residual_hash(src, fn, impl, spans):
    it = rustscan.find_fn(src, fn, impl)
    m = rustscan.mask(src)          # comments and string contents blanked
    out, k = [], it.sig_start
    for a, b in sorted(spans):
        out.append(m[k:a]); out.append('/*SLICE*/'); k = b
    out.append(m[k:it.body_close + 1])
    text = ''.join(out)
    # logging statements are not behaviour (same rule as R1 of the Verus extraction)
    text = re.sub(r'log::(?:debug|info|warn|error|trace)!\((?:[^;]|\n)*?\);', '', text)
    return sha256(re.sub(r'\s+', ' ', text).strip())


def add_direct_twins(body):
    """For every harness that stubs a callee (`#[kani::stub(..)]`), append a twin `<name>__direct`
    without the stub attributes.  The twin is never part of a proof; it is run only after the
    modular harness failed, to obtain a counterexample that is meaningful on the real code
    (in a native replay no stub is active, so the modular harness's own counterexample may
    depend on a callee value the real callee never returns)."""
    out = []
    for m in re.finditer(r'((?:[ \t]*#\[kani::[^\n]*\]\n)+)([ \t]*fn\s+(\w+)\s*\(\s*\)\s*\{)', body):
        attrs, head, name = m.group(1), m.group(2), m.group(3)
        if 'kani::stub(' not in attrs or 'kani::proof' not in attrs:
            continue
        fake = rustscan.find_fn(body, name)
        kept = ''.join(l + '\n' for l in attrs.split('\n') if l.strip() and 'kani::stub(' not in l)
        out.append(kept + body[fake.sig_start - (len(head) - len(head.lstrip())):fake.body_close + 1].replace(f'fn {name}', f'fn {name}__direct', 1))
    return body + '\n    // ---- generated non-modular twins (counterexample search only) ----\n' + '\n'.join(out) if out else body


def has_twin(u, hname):
    it = rustscan.find_fn(u.module_src, hname)
    pre = u.module_src[it.start:it.sig_start]
    return 'kani::stub(' in pre


CHECK_RE = re.compile(r'Check \d+: (?P<name>[^\n]+)\n\s+- Status: (?P<status>\w+)\n\s+- Description: "(?P<desc>(?:[^"\\]|\\.|"(?!\n))*)"\n(?:\s+- Location: (?P<loc>[^\n]*)\n)?')


def norm(s):
    return re.sub(r'\s+', ' ', s).strip()


def parse_results(out):
    checks = []
    seg = out.split('RESULTS:', 1)
    if len(seg) == 2:
        for m in CHECK_RE.finditer(seg[1]):
            d = m.groupdict()
            d['desc'] = norm(d['desc'])
            checks.append(d)
    solver_s = sum(float(x) for x in re.findall(r'Runtime decision procedure: ([\d.]+)s', out))
    vt = re.search(r'Verification Time: ([\d.]+)s', out)
    verdict = None
    if 'VERIFICATION:- SUCCESSFUL' in out:
        verdict = 'SUCCESSFUL'
    elif 'VERIFICATION:- FAILED' in out:
        verdict = 'FAILED'
    return checks, solver_s, float(vt.group(1)) if vt else None, verdict


def classify(u, hname, checks, verdict, contract_clauses):
    """-> dict(obls={name:status}, covers={name:status}, panics=[desc...], undecided=[...], n_checks, n_ignored)"""
    res = {'obl_desc': {}, 'obls': {}, 'covers': {}, 'panics': [], 'undecided': [], 'n_checks': len(checks), 'n_ignored': 0, 'n_success': 0}
    for c in checks:
        name, status, desc = c['name'], c['status'], c['desc']
        cls = name.rsplit('.', 2)[-2] if name.count('.') >= 2 else ''
        if desc.startswith('OBL:'):
            k = desc[4:]
            prev = res['obls'].get(k)
            # several instances of one clause (inlined helper): worst status wins
            rank = {'FAILURE': 3, 'UNDETERMINED': 2, 'UNREACHABLE': 0, 'SUCCESS': 1}
            if prev is None or rank.get(status, 2) > rank.get(prev, 2):
                res['obls'][k] = status
            res['obl_desc'].setdefault(k, set()).add(desc)
            continue
        if desc.startswith('COVER:'):
            res['covers'][desc[6:]] = status
            continue
        hit = None
        for sub, cname in contract_clauses.items():
            if sub in desc:
                hit = cname
        if hit:
            prev = res['obls'].get(hit)
            if prev != 'FAILURE':
                res['obls'][hit] = status
            res['obl_desc'].setdefault(hit, set()).add(desc)
            continue
        if IGNORED_DESC.match(desc):
            res['n_ignored'] += 1
            continue
        if status == 'SUCCESS' or status == 'UNREACHABLE' or status == 'SATISFIED' or status == 'UNSATISFIABLE':
            res['n_success'] += 1
            continue
        if status == 'UNDETERMINED':
            res['n_undetermined'] = res.get('n_undetermined', 0) + 1
        elif cls == 'unwind' or 'unwinding assertion' in desc:
            res['undecided'].append(f'unwinding assertion: {desc} @ {c.get("loc")}')
        elif cls == 'unsupported_construct' or 'not currently supported by Kani' in desc:
            res['undecided'].append(f'unsupported construct: {desc} @ {c.get("loc")}')
        elif status == 'UNDETERMINED':
            res['n_undetermined'] = res.get('n_undetermined', 0) + 1
        elif status == 'FAILURE':
            res['panics'].append({'desc': desc, 'loc': c.get('loc'), 'check': name})
        else:
            res['undecided'].append(f'status {status}: {desc}')
    if verdict == 'FAILED' and not res['panics'] and not res['undecided'] and not any(v == 'FAILURE' for v in res['obls'].values()) \
            and not any(v not in ('SATISFIED',) for v in res['covers'].values()) and not res['n_ignored']:
        res['undecided'].append('kani reports FAILED but no failing check could be attributed (result parsing)')
    if res.get('n_undetermined') and not res['undecided']:
        res['undecided'].append(f'{res["n_undetermined"]} checks undetermined')
    return res


class KaniRun:
    def __init__(self, tag, units, keep=False):
        self.units = units
        self.scratch = make_scratch(tag)
        self.keep = keep
        self.prov = None
        self.build_s = None

    def prepare(self, extra_tests=None):
        copy_repo(self.scratch)
        self.prov = inject(self.scratch, self.units, extra_tests)

    def build(self):
        rc, out, wall, rss, reason = run(['cargo', 'kani', '--only-codegen'] + KANI_Z, cwd=self.scratch, timeout=900)
        self.build_s = wall
        if rc != 0:
            errs = '\n'.join(m.group(0) for m in re.finditer(r'(?m)^error.*(?:\n(?!warning|error).*){0,12}', out))[:6000]
            raise Undecided(f'kani build of the injected crate failed ({reason or rc}):\n{errs}')

    def run_harness(self, u, hname, playback=False, timeout=None, solver_override=None, twin=False):
        h = u.harness[hname]
        cmd = ['cargo', 'kani', '--harness', u.full(hname) + ('__direct' if twin else ''), '--exact'] + KANI_Z
        tail = []
        solver = solver_override or h.get('solver')
        if solver == 'cvc5':
            # cvc5 through CBMC's bit-vector (Boolector-flavour) SMT2 output; see vx/smtwrap
            tail = ['-Z', 'unstable-options', '--cbmc-args', '--boolector', '--external-smt2-solver', os.path.join(VERIF, 'vx', 'smtwrap')]
        elif solver == 'cvc5-fpa':
            cmd += ['--solver', 'cvc5']
        elif solver:
            cmd += ['--solver', solver]
        if h.get('unwind'):
            cmd += ['--default-unwind', str(h['unwind'])]
        if not h.get('cbmc_float_checks', False):
            # CBMC's NaN / float-overflow instrumentation flags the code's deliberate inf/NaN
            # (do_divition divides first, guards afterwards); Rust's own integer overflow
            # assertions come from MIR and stay (self-test: tools:canary_i64_overflow)
            cmd += ['--no-overflow-checks']
        cmd += h.get('args', [])
        if playback:
            cmd += ['-Z', 'concrete-playback', '--concrete-playback=print']
        cmd += tail
        to = timeout or h.get('timeout', 480)
        rc, out, wall, rss, reason = run(cmd, cwd=self.scratch, timeout=to, rss_limit_gb=h.get('rss_gb', 10))
        return {'cmd': ' '.join(cmd), 'rc': rc, 'out': out, 'wall_s': round(wall, 2), 'peak_rss_mb': rss, 'killed': reason}

    def playback_native(self, test_names):
        cmd = ['cargo', 'kani', 'playback', '-Z', 'concrete-playback'] + KANI_Z + ['--'] + test_names
        rc, out, wall, rss, reason = run(cmd, cwd=self.scratch, timeout=900)
        return rc, out

    def close(self):
        if not self.keep:
            rm_scratch(self.scratch)


PLAYBACK_RE = re.compile(r'```\n(?P<doc>///.*?)(?P<code>#\[test\]\nfn (?P<fn>kani_concrete_playback_\w+)\(\) \{.*?\n\})\n```', re.S)


def parse_playback(out):
    tests = []
    for m in PLAYBACK_RE.finditer(out):
        d = re.search(r'Check for `(?P<cls>[^`]*)`: "(?P<desc>.*)"', m.group('doc'), re.S)
        vals = re.findall(r'//\s*(.*)\n\s*vec!\[([^\]]*)\]', m.group('code'))
        tests.append({'fn': m.group('fn'), 'code': m.group('code'), 'class': d.group('cls') if d else '',
                      'desc': norm(d.group('desc')) if d else '',
                      'values': [{'shown_as': a.strip(), 'bytes': [int(x) for x in b.replace(' ', '').split(',') if x]} for a, b in vals]})
    return tests
