#!/usr/bin/env python3
"""write seeded/README.md from seeded/*/meta.json"""
import glob, json, os, re
VERIF = os.path.dirname(os.path.dirname(os.path.abspath(__file__)))
WHY = {
 'C01-1': 'explicit range check + panicking constructor added in front of the sliced initialiser: residual-hash guard (exit 2)',
 'C01-3': 'the line-split regex is pinned as a source fact of the session unit: a changed pattern is a lost anchor (exit 2), its meaning (one part per LF/CRLF line) is an assumption',
 'C02-4': 'first run exit 2 (ghost-insertion anchor quoted the changed loop condition); detected after the anchor was keyed on a prefix - see meta.json recheck_after_strengthening',
 'C17-2': 'which capture group the number parser highlights: regex layer, not under contract',
 'C17-3': 'dynamic_type_tokinizer calls update_tokens with a different end: update_tokens and its callers are listed as not covered',
 'C02-2': 'recursive-descent parser (src/syntax): out of reach of both verifiers (DESIGN.md §10)',
 'C03-1': 'AssignmentParser name construction: not under contract (C03 covers find_location only)',
 'C03-2': 'token equality (impl PartialEq<TokenType> for TokenInfo): find_location is checked generically at u8, the equality itself is not under contract',
 'C03-3': 'update_token_variables: not under contract (RefCell<BTreeMap>, Vec::drain, TokenType drop glue)',
 'C04-2': 'rule_tokinizer marks a shared rule token Removed: aliasing over Rc<TokenInfo> is listed as not decided for C04',
 'C04-3': 'VariableInfo::to_string key: variable map handling is not under contract',
 'C05-3': 'rule pattern in config.json: which phrase reaches which rule function is assumption A3',
 'C06-2': 'compiles against the stand-ins and the SMT back end reports the failure, but neither the SAT re-decision nor the counterexample search finished in time on the loaded machine: undecided, not an alarm',
 'C06-3': 'read_currency lower-casing: string lookup in the unverified tokenizer layer',
 'C09-1': 'seeded site rewritten by the fix: commits (year/month now applied in one step)',
 'C09-2': 'today in the configured zone vs tomorrow/yesterday in UTC: text_constants (added afterwards) assumes one clock reading and UTC dates; the seed was run before that unit existed',
 'C09-3': 'statement added around the sliced call: residual-hash guard refuses to call small_date verified (exit 2)',
 'C11-2': 'statement added in front of the sliced difference: residual-hash guard (exit 2)',
 'C13-3': 'order of the literal regexes in config.json: assumption A3',
 'C14-1': 'DateTimeItem::print month name: string formatting, not under contract',
}
rows = []
for d in sorted(glob.glob(os.path.join(VERIF, 'seeded', 'C*-*'))):
    mp = os.path.join(d, 'meta.json')
    if not os.path.exists(mp): continue
    m = json.load(open(mp))
    notes = open(os.path.join(d, 'notes.md')).read() if os.path.exists(os.path.join(d, 'notes.md')) else ''
    files = sorted(set(re.findall(r'^\+\+\+ b/(\S+)', open(os.path.join(d, 'patch.diff')).read(), re.M))) if os.path.exists(os.path.join(d, 'patch.diff')) else []
    chk = m.get('check') or {}
    if not m.get('patch_applies', True):
        outcome = 'patch no longer applies to the repaired tree (the seeded site was rewritten by a fix: commit)'
    elif m.get('detected'):
        fr = chk.get('first_replay') or {}
        outcome = 'DETECTED: ' + ', '.join(chk.get('failed_obligations', [])[:3]) + (' — input replayed natively' if fr.get('native_replay') else ' — no-failing-input-found')
    elif chk and chk.get('exit') == 2:
        outcome = 'undecided (exit 2): ' + '; '.join(u[:160] for u in chk.get('undecided', [])[:2])
    elif chk:
        outcome = 'NOT detected (check passed)'
    else:
        outcome = 'not run: ' + m.get('why_not_run', '')
    rows.append((m['seed'], ', '.join(files), 'yes' if m.get('confirmed') else 'no', outcome, '' if m.get('detected') else WHY.get(m['seed'], '')))
out = ['# Seeded changes', '',
       'Each directory holds one change produced by an independent sub-agent that saw only the property text',
       'and a scratch worktree: `patch.diff`, the demonstration `demo.rs`, the agent\'s `notes.md` and `meta.json`',
       '(what was run to confirm it — existing suite unchanged, demo passes on the clean tree and fails on the',
       'changed one — and the outcome of the property\'s quick check on a scratch copy carrying the change;',
       'see `vx/seedrun.py`).', '',
       '| seed | files touched | confirmed | outcome of `check.py <property> --tier quick` | why missed / remark |', '|---|---|---|---|---|']
for r in rows:
    out.append('| ' + ' | '.join(x.replace('|', '\\|') for x in r) + ' |')
open(os.path.join(VERIF, 'seeded', 'README.md'), 'w').write('\n'.join(out) + '\n')
print('\n'.join(out[-len(rows):]))
