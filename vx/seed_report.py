#!/usr/bin/env python3
"""write seeded/README.md from seeded/*/meta.json"""
import glob, json, os, re
VERIF = os.path.dirname(os.path.dirname(os.path.abspath(__file__)))
rows = []
for d in sorted(glob.glob(os.path.join(VERIF, 'seeded', 'C*-*'))):
    mp = os.path.join(d, 'meta.json')
    if not os.path.exists(mp): continue
    m = json.load(open(mp))
    notes = open(os.path.join(d, 'notes.md')).read() if os.path.exists(os.path.join(d, 'notes.md')) else ''
    files = sorted(set(re.findall(r'^\+\+\+ b/(\S+)', open(os.path.join(d, 'patch.diff')).read(), re.M))) if os.path.exists(os.path.join(d, 'patch.diff')) else []
    chk = m.get('check') or {}
    if not m.get('patch_applies', True):
        outcome = 'patch no longer applies to the repaired tree (the seeded site was rewritten by a fix: commit)'
    elif m.get('detected'):
        fr = chk.get('first_replay') or {}
        outcome = 'DETECTED: ' + ', '.join(chk.get('failed_obligations', [])[:3]) + (' — input replayed natively' if fr.get('native_replay') else ' — no-failing-input-found')
    elif chk and chk.get('exit') == 2:
        outcome = 'undecided (exit 2): ' + '; '.join(u[:160] for u in chk.get('undecided', [])[:2])
    elif chk:
        outcome = 'NOT detected (check passed)'
    else:
        outcome = 'not run: ' + m.get('why_not_run', '')
    rows.append((m['seed'], ', '.join(files), 'yes' if m.get('confirmed') else 'no', outcome, m.get('why_missed', '')))
out = ['# Seeded changes', '',
       'Each directory holds one change produced by an independent sub-agent that saw only the property text',
       'and a scratch worktree: `patch.diff`, the demonstration `demo.rs`, the agent\'s `notes.md` and `meta.json`',
       '(what was run to confirm it — existing suite unchanged, demo passes on the clean tree and fails on the',
       'changed one — and the outcome of the property\'s quick check on a scratch copy carrying the change;',
       'see `vx/seedrun.py`).', '',
       '| seed | files touched | confirmed | outcome of `check.py <property> --tier quick` | why missed / remark |', '|---|---|---|---|---|']
for r in rows:
    out.append('| ' + ' | '.join(x.replace('|', '\\|') for x in r) + ' |')
open(os.path.join(VERIF, 'seeded', 'README.md'), 'w').write('\n'.join(out) + '\n')
print('\n'.join(out[-len(rows):]))
