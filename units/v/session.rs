// Verus unit `session` (C01 one slot per line / loop terminates; C04 cursor reset, frames, reuse).
// Everything between /*@BEGIN x*/ and /*@END x*/ is extracted from /repo on every run
// (see session.toml for the stated rewrites); the rest is scaffold: opaque stand-ins,
// spec functions, and client lemmas that use the contracts only.
use vstd::prelude::*;
verus! {

// number of LF / CRLF separated lines of a text (what the regex split in set_text yields) - uninterpreted
pub uninterp spec fn spec_line_count(s: Seq<char>) -> nat;
// the result slot the (unverified) single-line pipeline produces for line `pos` of a session
pub uninterp spec fn spec_execute_text(session: Session, pos: nat) -> ExecutionLine;
pub uninterp spec fn spec_empty_varmap() -> VarMap;

// stand-in for RefCell<BTreeMap<String, Rc<VariableInfo>>> (not reachable by Verus)
#[verifier::external_body]
pub struct VarMap { _p: core::marker::PhantomData<()> }
impl VarMap {
    #[verifier::external_body]
    pub fn empty() -> (r: VarMap) ensures r == spec_empty_varmap() { VarMap { _p: core::marker::PhantomData } }
}

// `position: Cell<usize>` is hoisted into a `position` parameter (rewrite R3)
pub struct Session {
    pub text: String,
    pub text_parts: Vec<String>,
    pub language: String,
    pub variables: VarMap,
}

// stand-in for `Regex::new(r"\r\n|\n").split(&text).map(to_string).collect()`
#[verifier::external_body]
fn split_lines(text: &String) -> (r: Vec<String>)
    ensures r@.len() == spec_line_count(text@), spec_line_count(text@) >= 1,
{ unimplemented!() }

#[verifier::external_body]
pub struct ExecuteLine { _p: core::marker::PhantomData<()> }
pub type ExecutionLine = Option<ExecuteLine>;
pub struct ExecuteResult { pub status: bool, pub lines: Vec<ExecutionLine> }
impl ExecuteResult {
    // #[derive(Default)] in the repository
    pub fn default() -> (r: ExecuteResult) ensures r.status == false, r.lines@.len() == 0 { ExecuteResult { status: false, lines: Vec::new() } }
}
pub struct SmartCalc { pub _c: u8 }

impl Session {
    /*@FN Session::new*/

    /*@FN Session::set_text*/

    /*@FN Session::set_language*/

    /*@FN Session::current_line*/

    /*@FN Session::has_value*/

    /*@FN Session::line_count*/

    /*@FN Session::next_line*/
}

impl SmartCalc {
    // the whole single-line pipeline (regex tokenizers, rules, parser, interpreter): unverified.
    // It can read the cursor (current_line) but cannot move it: `position` is a private field of
    // session.rs and only next_line / set_text write it (source facts checked on every run).
    #[verifier::external_body]
    fn execute_text(&self, session: &Session, position: &usize) -> (r: ExecutionLine)
        requires *position < session.text_parts@.len()
        ensures r == spec_execute_text(*session, *position as nat)
    { unimplemented!() }

    /*@FN SmartCalc::execute_session*/

    /*@FN SmartCalc::execute*/
}

#[verifier::external_body]
fn any_text() -> (r: String) { unimplemented!() }

// C04 "a re-used session ... each time a new text is set on it every line of that text is
// evaluated exactly once, in order", for call sequences of any length; from the contracts only.
fn client_reuse(sc: &SmartCalc, n: u64) {
    let mut session = Session::new();
    let mut position: usize = 0;
    let ghost vars0 = session.variables;
    let mut i: u64 = 0;
    while i < n
        invariant session.variables == vars0, i <= n,
        decreases n - i
    {
        i = i + 1;
        let t = any_text();
        let ghost tv = t@;
        session.set_text(&mut position, t);
        let r = sc.execute_session(&session, &mut position);
        assert(r.status); // OBL:reuse_status_true
        assert(r.lines@.len() == spec_line_count(tv)); // OBL:reuse_one_slot_per_line
        assert(forall|j: int| 0 <= j < r.lines@.len() ==> r.lines@[j] == spec_execute_text(session, j as nat)); // OBL:reuse_slots_in_line_order
    }
    assert(session.variables == vars0); // OBL:reuse_keeps_variables
}

// vacuity canary: must be rejected on every run
proof fn canary_false() // CANARY
    ensures 1int == 2int, // CANARY
{
}

} // verus!
fn main() {}
