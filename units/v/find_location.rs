// Verus unit `find_location` (C03: every occurrence of a name is found).  The function is generic
// (T: PartialEq<U>); it is extracted at T = U = u8 (see find_location_v.toml for the rewrites).
use vstd::prelude::*;
use std::rc::Rc;
verus! {

pub open spec fn occurs_at(tokens: Seq<Rc<u8>>, rule: Seq<Rc<u8>>, s: int) -> bool {
    0 <= s && s + rule.len() <= tokens.len() && forall|k: int| 0 <= k < rule.len() ==> *tokens[s + k] == *rule[k]
}

/*@FN find_location*/

// vacuity canary: must be rejected on every run
proof fn canary_false() // CANARY
    ensures 1int == 2int, // CANARY
{
}

} // verus!
fn main() {}
