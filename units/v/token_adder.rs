// Verus unit `token_adder_v` (C02: operands written side by side are added, a leading sign gets an
// implicit 0).  Tokinizer::missing_token_adder is extracted from /repo/src/tokinizer/mod.rs on every
// run (see token_adder_v.toml for the stated rewrites); everything outside the markers is specification.
use vstd::prelude::*;
use std::rc::Rc;
verus! {

// stand-ins for the token type: the body inspects / builds only Operator(char) and
// Number(f64, NumberType); every other variant of the real enum is collapsed into Other
pub enum NumberType { Decimal, Octal, Hexadecimal, Binary, Raw }
pub enum TokenType { Number(f64, NumberType), Operator(char), Other(u8) }
pub struct Tokinizer { pub tokens: Vec<Rc<TokenType>> }

pub open spec fn tv(s: Seq<Rc<TokenType>>) -> Seq<TokenType> { s.map_values(|t: Rc<TokenType>| *t) }
pub open spec fn is_op(t: TokenType) -> bool { t is Operator }
pub open spec fn plus() -> TokenType { TokenType::Operator('+') }
pub open spec fn zero() -> TokenType { TokenType::Number(0.0, NumberType::Decimal) }
// the scan starts behind the first '=' (assignment: the name is left alone) or '('
pub open spec fn is_start(t: TokenType) -> bool { t == TokenType::Operator('=') || t == TokenType::Operator('(') }
pub open spec fn start_from(ts: Seq<TokenType>, k: int) -> int decreases ts.len() - k {
    if k < 0 || k >= ts.len() { 0 } else if is_start(ts[k]) { k + 1 } else { start_from(ts, k + 1) }
}
// C02 "operands written side by side without an operator are added": an implicit '+' goes between
// two adjacent non-operator tokens and nowhere else (req = the previous token was an operand)
pub open spec fn fill(rest: Seq<TokenType>, req: bool) -> Seq<TokenType>
    decreases rest.len()
{
    if rest.len() == 0 { rest }
    else if is_op(rest[0]) { seq![rest[0]] + fill(rest.skip(1), false) }
    else if req { seq![plus(), rest[0]] + fill(rest.skip(1), true) }
    else { seq![rest[0]] + fill(rest.skip(1), true) }
}
pub open spec fn expected(ts: Seq<TokenType>) -> Seq<TokenType> {
    if ts.len() == 0 { ts } else {
        let i0 = start_from(ts, 0);
        if i0 + 1 >= ts.len() { ts } else {
            let i1 = if ts[i0] == TokenType::Operator('(') { i0 + 1 } else { i0 };
            let ts2 = if is_op(ts[i1]) { ts.insert(i1, zero()) } else { ts };
            ts2.subrange(0, i1) + fill(ts2.subrange(i1, ts2.len() as int), false)
        }
    }
}
pub proof fn lemma_start_bound(ts: Seq<TokenType>, k: int)
    requires 0 <= k,
    ensures 0 <= start_from(ts, k) <= ts.len(),
    decreases ts.len() - k
{
    if k < ts.len() && !is_start(ts[k]) { lemma_start_bound(ts, k + 1); }
}
pub proof fn lemma_no_marker(ts: Seq<TokenType>, k: int)
    requires 0 <= k, forall|j: int| 0 <= j < ts.len() ==> !is_start(#[trigger] ts[j]),
    ensures start_from(ts, k) == 0,
    decreases ts.len() - k
{
    if k < ts.len() { lemma_no_marker(ts, k + 1); }
}
// the property-level reading of `expected` for a plain expression (no '=' and no '(' in the line,
// at least two tokens): a leading operator gets a 0 in front, then '+' between adjacent operands
pub proof fn lemma_plain_expression(ts: Seq<TokenType>)
    requires ts.len() >= 2, forall|j: int| 0 <= j < ts.len() ==> !is_start(#[trigger] ts[j]),
    ensures
        is_op(ts[0]) ==> expected(ts) == fill(seq![zero()] + ts, false), // OBL:leading_operator_gets_an_implicit_zero
        !is_op(ts[0]) ==> expected(ts) == fill(ts, false), // OBL:plain_expression_is_completed_from_its_first_token
{
    lemma_no_marker(ts, 0);
    if is_op(ts[0]) {
        let ts2 = ts.insert(0, zero());
        assert(ts2 =~= seq![zero()] + ts);
        assert(ts2.subrange(0, 0) =~= Seq::<TokenType>::empty());
        assert(ts2.subrange(0, ts2.len() as int) =~= ts2);
        assert(ts2.subrange(0, 0) + fill(ts2, false) =~= fill(ts2, false));
    } else {
        assert(ts.subrange(0, 0) =~= Seq::<TokenType>::empty());
        assert(ts.subrange(0, ts.len() as int) =~= ts);
        assert(ts.subrange(0, 0) + fill(ts, false) =~= fill(ts, false));
    }
}
// in a completed run no two operands are adjacent any more (every gap carries an operator)
pub proof fn lemma_fill_separates_operands(rest: Seq<TokenType>, req: bool)
    ensures
        forall|k: int| 0 <= k < fill(rest, req).len() - 1 ==> is_op(#[trigger] fill(rest, req)[k]) || is_op(fill(rest, req)[k + 1]), // OBL:no_two_adjacent_operands_remain
        req && fill(rest, req).len() > 0 ==> is_op(fill(rest, req)[0]),
        fill(rest, req).len() >= rest.len(),
    decreases rest.len()
{
    if rest.len() > 0 {
        let out = fill(rest, req);
        if is_op(rest[0]) {
            lemma_fill_separates_operands(rest.skip(1), false);
            let tail = fill(rest.skip(1), false);
            assert(out =~= seq![rest[0]] + tail);
            assert forall|k: int| 0 <= k < out.len() - 1 implies is_op(#[trigger] out[k]) || is_op(out[k + 1]) by {
                if k >= 1 { assert(out[k] == tail[k - 1]); assert(out[k + 1] == tail[k - 1 + 1]); }
            }
        } else if req {
            lemma_fill_separates_operands(rest.skip(1), true);
            let tail = fill(rest.skip(1), true);
            assert(out =~= seq![plus(), rest[0]] + tail);
            assert forall|k: int| 0 <= k < out.len() - 1 implies is_op(#[trigger] out[k]) || is_op(out[k + 1]) by {
                if k >= 2 { assert(out[k] == tail[k - 2]); assert(out[k + 1] == tail[k - 2 + 1]); }
                else if k == 1 { assert(out[2] == tail[0]); }
            }
        } else {
            lemma_fill_separates_operands(rest.skip(1), true);
            let tail = fill(rest.skip(1), true);
            assert(out =~= seq![rest[0]] + tail);
            assert forall|k: int| 0 <= k < out.len() - 1 implies is_op(#[trigger] out[k]) || is_op(out[k + 1]) by {
                if k >= 1 { assert(out[k] == tail[k - 1]); assert(out[k + 1] == tail[k - 1 + 1]); }
                else { assert(out[1] == tail[0]); }
            }
        }
    }
}

impl Tokinizer {
/*@FN Tokinizer::missing_token_adder*/
}

// vacuity canary: must be rejected on every run
proof fn canary_false() // CANARY
    ensures 1int == 2int, // CANARY
{
}

} // verus!
fn main() {}
