// Verus unit `parse_binary_v` (C02: * and / bind tighter than + and -, equal precedence associates
// to the left).  parse_binary and the three `impl SyntaxParserTrait for ..Parser` ladders are extracted
// from /repo/src/syntax/binary.rs on every run; everything outside the markers is specification.
use vstd::prelude::*;
use std::rc::Rc;
use vstd::std_specs::iter::IteratorSpec;
verus! {

// stand-in for the AST: Binary and PrefixUnary as in /repo (source facts), every leaf kind
// (Field, Item, Month, Symbol, Variable, Assignment) collapsed into Leaf - parse_binary never looks at them
pub enum SmartCalcAstType {
    None,
    Leaf(u64),
    Binary { left: Rc<SmartCalcAstType>, operator: char, right: Rc<SmartCalcAstType> },
    PrefixUnary(char, Rc<SmartCalcAstType>),
}
pub type AstResult = Result<SmartCalcAstType, (&'static str, u16, u16)>;

// stand-in for SyntaxParser: its cursor is a Cell<usize> and its tokens live behind references, both
// outside Verus, so get_index / set_index / check_operator / consume_token are external_body (no
// contract is assumed for them); match_operator is extracted and proved against them
pub struct SyntaxParser { pub idx: usize }
impl SyntaxParser {
    #[verifier::external_body]
    pub fn get_index(&self) -> usize { 0 }
    #[verifier::external_body]
    pub fn set_index(&self, index: usize) { }
    // "the token under the cursor is Operator(c)" at the time match_operator is entered (uninterpreted)
    pub uninterp spec fn at_operator(&self, c: char) -> bool;
    #[verifier::external_body]
    fn check_operator(&self, operator: char) -> (r: bool)
        ensures r == self.at_operator(operator),
    { false }
    #[verifier::external_body]
    pub fn consume_token(&self) { }
/*@FN SyntaxParser::match_operator*/
}

// every level of the ladder promises: what it returns is empty or an AST "of its level"
pub trait SyntaxParserTrait {
    spec fn level(a: SmartCalcAstType) -> bool;
    fn parse(parser: &mut SyntaxParser) -> (r: AstResult)
        ensures r is Ok ==> (r.unwrap() is None || Self::level(r.unwrap())); // OBL:level_parser_returns_an_ast_of_its_level
}
// a LEFT-nested chain over the operators `ops` whose operands are all ASTs of the tighter level T:
//   ((t1 op t2) op t3) op t4 ...   - the right operand of every node is a T-level AST, never a chain
pub open spec fn chain<T: SyntaxParserTrait>(a: SmartCalcAstType, ops: Seq<char>) -> bool
    decreases a
{
    T::level(a) || match a {
        SmartCalcAstType::Binary { left, operator, right } => ops.contains(operator) && T::level(*right) && chain::<T>(*left, ops),
        _ => false,
    }
}

// the tightest level (sign prefix, parentheses, literals): not extracted, its ASTs are `unary_level`
pub struct UnaryParser;
pub uninterp spec fn unary_level(a: SmartCalcAstType) -> bool;
impl SyntaxParserTrait for UnaryParser {
    open spec fn level(a: SmartCalcAstType) -> bool { unary_level(a) }
    #[verifier::external_body]
    fn parse(parser: &mut SyntaxParser) -> (r: AstResult) { Ok(SmartCalcAstType::None) }
}
pub struct ModuloParser;
pub struct MultiplyDivideParser;
pub struct AddSubtractParser;

impl SyntaxParserTrait for ModuloParser {
    open spec fn level(a: SmartCalcAstType) -> bool { chain::<MultiplyDivideParser>(a, ['%']@) }
/*@FN ModuloParser::parse*/
}

impl SyntaxParserTrait for MultiplyDivideParser {
    open spec fn level(a: SmartCalcAstType) -> bool { chain::<UnaryParser>(a, ['*', '/']@) }
/*@FN MultiplyDivideParser::parse*/
}

impl SyntaxParserTrait for AddSubtractParser {
    open spec fn level(a: SmartCalcAstType) -> bool { chain::<ModuloParser>(a, ['+', '-']@) }
/*@FN AddSubtractParser::parse*/
}

/*@FN parse_binary*/

// property-level readings of the ladder (proved from the definitions above)
// 1. precedence: an operand of a '+'/'-' node produced by the expression parser is never itself a bare
//    '+'/'-' node unless the unary level produced it (parentheses); in particular a '*' '/' '%' chain
//    is always a complete operand of the surrounding '+'/'-'
proof fn lemma_right_operand_of_a_sum_is_a_product_level_ast(a: SmartCalcAstType)
    requires AddSubtractParser::level(a), !ModuloParser::level(a),
    ensures
        a is Binary, // OBL:a_sum_that_is_not_a_product_is_a_binary_node
        a is Binary ==> (a->operator == '+' || a->operator == '-'), // OBL:its_operator_is_plus_or_minus
        a is Binary ==> ModuloParser::level(*a->right), // OBL:its_right_operand_is_of_the_tighter_level
        a is Binary ==> AddSubtractParser::level(*a->left), // OBL:its_left_operand_is_again_a_left_nested_sum
{
    let ops = ['+', '-']@;
    assert(ops.len() == 2 && ops[0] == '+' && ops[1] == '-');
}
// 2. associativity at the product level: the right operand of a '*' or '/' node is a unary-level AST
proof fn lemma_right_operand_of_a_product_is_unary(a: SmartCalcAstType)
    requires MultiplyDivideParser::level(a), !unary_level(a),
    ensures
        a is Binary && (a->operator == '*' || a->operator == '/') && unary_level(*a->right) && MultiplyDivideParser::level(*a->left), // OBL:products_nest_to_the_left_over_unary_operands
{
    let ops = ['*', '/']@;
    assert(ops.len() == 2 && ops[0] == '*' && ops[1] == '/');
}

// vacuity canary: must be rejected on every run
proof fn canary_false() // CANARY
    ensures 1int == 2int, // CANARY
{
}

} // verus!
fn main() {}
