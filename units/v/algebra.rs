// Verus unit `algebra`: lemmas that link the expressions pinned by the Kani obligations (mirror
// form) to the formulas written in the property statements.  No code is extracted here; the
// lemmas are about spec-level arithmetic only and are listed as such in the evidence.
use vstd::prelude::*;
verus! {

// ---- C05: pinned IEEE expressions read over the reals equal the textbook formulas (A4) ----
pub open spec fn rdiv(l: real, r: real) -> real { if r == 0real { 0real } else { l / r } }

proof fn percent_on(x: real, p: real)
    ensures x + rdiv(x * p, 100real) == x * (1real + p / 100real), // OBL:on_is_x_times_one_plus_p_over_100
{
    assert(x + (x * p) / 100real == x * (1real + p / 100real)) by(nonlinear_arith);
}
proof fn percent_off(x: real, p: real)
    ensures x - rdiv(x * p, 100real) == x * (1real - p / 100real), // OBL:off_is_x_times_one_minus_p_over_100
{
    assert(x - (x * p) / 100real == x * (1real - p / 100real)) by(nonlinear_arith);
}
proof fn percent_of(x: real, p: real)
    ensures rdiv(x * p, 100real) == x * p / 100real, // OBL:of_is_xp_over_100
{
}
proof fn plus_percent(x: real, p: real)
    ensures
        x + rdiv(x, 100real) * p == x * (1real + p / 100real), // OBL:x_plus_p_percent
        x - rdiv(x, 100real) * p == x * (1real - p / 100real), // OBL:x_minus_p_percent
{
    assert(x + (x / 100real) * p == x * (1real + p / 100real)) by(nonlinear_arith);
    assert(x - (x / 100real) * p == x * (1real - p / 100real)) by(nonlinear_arith);
}
proof fn what_percent(a: real, b: real)
    ensures
        b != 0real ==> rdiv(a * 100real, b) == 100real * a / b, // OBL:what_percent_is_100a_over_b
        rdiv(a * 100real, 0real) == 0real, // OBL:zero_divisor_yields_zero
{
    if b != 0real { assert((a * 100real) / b == 100real * a / b) by(nonlinear_arith) requires b != 0real; }
}

// ---- C06: conversion by rate(B)/rate(A) ----
proof fn convert(price: real, rf: real, rt: real)
    requires rf != 0real,
    ensures
        rdiv(price, rf) * rt == price * (rt / rf), // OBL:conversion_multiplies_by_rate_ratio
        rf == rt ==> rdiv(price, rf) * rt == price, // OBL:same_currency_is_identity
{
    assert((price / rf) * rt == price * (rt / rf)) by(nonlinear_arith) requires rf != 0real;
    if rf == rt { assert((price / rf) * rf == price) by(nonlinear_arith) requires rf != 0real; }
}

// ---- C10: integer facts behind the mirror-form obligations ----
proof fn floor_to_unit(s: int, len: int)
    requires s >= 0, len > 0,
    ensures
        (s / len) * len <= s, // OBL:whole_units_do_not_exceed_d
        s < (s / len) * len + len, // OBL:less_than_one_unit_is_dropped
        ((s / len) * len) % len == 0, // OBL:result_is_a_whole_number_of_units
{
    vstd::arithmetic::div_mod::lemma_fundamental_div_mod(s, len);
    vstd::arithmetic::div_mod::lemma_mod_bound(s, len);
    assert((s / len) * len == len * (s / len)) by(nonlinear_arith);
    vstd::arithmetic::div_mod::lemma_mod_multiples_basic(s / len, len);
}

proof fn day_split_resums(n: int)
    requires n >= 0,
    ensures 365 * (n / 365) + 30 * ((n % 365) / 30) + (n % 365) % 30 == n, // OBL:n_days_split_resums_to_n
{
    vstd::arithmetic::div_mod::lemma_fundamental_div_mod(n, 365);
    vstd::arithmetic::div_mod::lemma_fundamental_div_mod(n % 365, 30);
}

proof fn twelve_months_make_a_year(n: int)
    requires n >= 0,
    ensures n % 12 == 0 ==> 365 * (n / 12) + 30 * (n % 12) == 365 * (n / 12), // OBL:whole_years_of_months_are_365_day_years
{
}

pub open spec fn greedy_rest(mag: int, k: int) -> int
    decreases k
{
    // remainder after taking years (k=1), months (2), weeks (3), days (4), hours (5), minutes (6)
    if k <= 0 { mag }
    else if k == 1 { greedy_rest(mag, 0) % 31536000 }
    else if k == 2 { greedy_rest(mag, 1) % 2592000 }
    else if k == 3 { greedy_rest(mag, 2) % 604800 }
    else if k == 4 { greedy_rest(mag, 3) % 86400 }
    else if k == 5 { greedy_rest(mag, 4) % 3600 }
    else { greedy_rest(mag, 5) % 60 }
}

proof fn greedy_sums(mag: int)
    requires mag >= 0,
    ensures
        (greedy_rest(mag, 0) / 31536000) * 31536000
      + (greedy_rest(mag, 1) / 2592000) * 2592000
      + (greedy_rest(mag, 2) / 604800) * 604800
      + (greedy_rest(mag, 3) / 86400) * 86400
      + (greedy_rest(mag, 4) / 3600) * 3600
      + (greedy_rest(mag, 5) / 60) * 60
      + greedy_rest(mag, 6) == mag, // OBL:greedy_parts_sum_to_the_magnitude
        0 <= greedy_rest(mag, 6) < 60, // OBL:leftover_seconds_below_a_minute
{
    reveal_with_fuel(greedy_rest, 8);
    let r0 = greedy_rest(mag, 0); let r1 = greedy_rest(mag, 1); let r2 = greedy_rest(mag, 2);
    let r3 = greedy_rest(mag, 3); let r4 = greedy_rest(mag, 4); let r5 = greedy_rest(mag, 5);
    vstd::arithmetic::div_mod::lemma_fundamental_div_mod(r0, 31536000);
    vstd::arithmetic::div_mod::lemma_fundamental_div_mod(r1, 2592000);
    vstd::arithmetic::div_mod::lemma_fundamental_div_mod(r2, 604800);
    vstd::arithmetic::div_mod::lemma_fundamental_div_mod(r3, 86400);
    vstd::arithmetic::div_mod::lemma_fundamental_div_mod(r4, 3600);
    vstd::arithmetic::div_mod::lemma_fundamental_div_mod(r5, 60);
    vstd::arithmetic::div_mod::lemma_mod_bound(r0, 31536000);
    vstd::arithmetic::div_mod::lemma_mod_bound(r1, 2592000);
    vstd::arithmetic::div_mod::lemma_mod_bound(r2, 604800);
    vstd::arithmetic::div_mod::lemma_mod_bound(r3, 86400);
    vstd::arithmetic::div_mod::lemma_mod_bound(r4, 3600);
    vstd::arithmetic::div_mod::lemma_mod_bound(r5, 60);
}

// vacuity canary: must be rejected on every run
proof fn canary_false() // CANARY
    ensures 1int == 2int, // CANARY
{
}

} // verus!
fn main() {}
