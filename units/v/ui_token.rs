// Verus unit `ui_token_v` (C17: highlight tokens are well-formed character spans).  The four
// functions between the markers are extracted from /repo/src/token/ui_token.rs on every run (see
// ui_token_v.toml for the stated rewrites).  Everything outside the markers is specification.
use vstd::prelude::*;
use vstd::std_specs::iter::IteratorSpec;
verus! {

// ASSUMED contract of core::option::Option::map_or (std, not verified here)
pub assume_specification<T, U, F: FnOnce(T) -> U>[Option::<T>::map_or](o: Option<T>, d: U, f: F) -> (r: U)
    requires o.is_some() ==> f.requires((o.unwrap(),)),
    ensures o.is_none() ==> r == d, o.is_some() ==> f.ensures((o.unwrap(),), r);

// type definitions: pinned against /repo by the source facts of ui_token_v.toml
pub enum UiTokenType { Text, Number, Symbol1, Symbol2, DateTime, Operator, Comment, VariableDefination, VariableUse, Month }
pub struct UiToken { pub start: usize, pub end: usize, pub ui_type: UiTokenType }
pub struct UiTokenCollection { pub tokens: Vec<UiToken>, pub char_sizes: Vec<usize> }

// stand-in for regex::Match: a byte span (ASSUMED: start() <= end() <= length of the line in bytes)
pub struct Match { pub s: usize, pub e: usize }
impl Match {
    #[verifier::external_body]
    pub fn start(&self) -> (r: usize) ensures r == self.s { self.s }
    #[verifier::external_body]
    pub fn end(&self) -> (r: usize) ensures r == self.e { self.e }
}

// the byte -> character map that generate_char_map builds: entry b is the index of the character
// that byte b belongs to, so it starts at 0 and steps by 0 or 1
pub open spec fn step_map(m: Seq<usize>) -> bool {
    (m.len() > 0 ==> m[0] == 0) && forall|i: int| 0 <= i < m.len() - 1 ==> (#[trigger] m[i + 1] == m[i] || m[i + 1] == m[i] + 1)
}
// number of characters of the line
pub open spec fn n_chars(m: Seq<usize>) -> int { if m.len() == 0 { 0 } else { m.last() + 1 } }
// character position of the byte boundary b (b == m.len() is the end of the line)
pub open spec fn char_index(m: Seq<usize>, b: int) -> int { if 0 <= b < m.len() { m[b] as int } else { n_chars(m) } }
pub open spec fn overlaps(t: UiToken, s: int, e: int) -> bool { t.start < e && s < t.end }
pub open spec fn collides(ts: Seq<UiToken>, s: int, e: int) -> bool { exists|k: int| 0 <= k < ts.len() && overlaps(#[trigger] ts[k], s, e) }
// C17: 0 <= start < end <= length of the line in characters, and no two tokens overlap
pub open spec fn well_formed(ts: Seq<UiToken>, n: int) -> bool {
    (forall|k: int| 0 <= k < ts.len() ==> 0 <= (#[trigger] ts[k]).start < ts[k].end <= n)
    && (forall|i: int, j: int| 0 <= i < j < ts.len() ==> !overlaps(#[trigger] ts[i], (#[trigger] ts[j]).start as int, ts[j].end as int))
}
pub open spec fn recordable(m: Seq<usize>, ts: Seq<UiToken>, c: Match) -> bool {
    char_index(m, c.s as int) < char_index(m, c.e as int) && !collides(ts, char_index(m, c.s as int), char_index(m, c.e as int))
}
pub open spec fn token_of(m: Seq<usize>, c: Match, t: UiTokenType) -> UiToken {
    UiToken { start: char_index(m, c.s as int) as usize, end: char_index(m, c.e as int) as usize, ui_type: t }
}

pub proof fn lemma_step_map(m: Seq<usize>, i: int, j: int)
    requires step_map(m), 0 <= i <= j < m.len(),
    ensures m[i] <= m[j], m[j] - m[i] <= j - i, m[j] <= j,
    decreases j
{
    if j > 0 {
        if i < j { lemma_step_map(m, i, j - 1); }
        lemma_step_map(m, 0, j - 1);
        assert(m[(j - 1) + 1] == m[j - 1] || m[(j - 1) + 1] == m[j - 1] + 1);
    }
}
pub proof fn lemma_char_index(m: Seq<usize>, a: int, b: int)
    requires step_map(m), 0 <= a <= b <= m.len(),
    ensures 0 <= char_index(m, a) <= char_index(m, b) <= n_chars(m), char_index(m, b) <= b, char_index(m, b) - char_index(m, a) <= b - a,
{
    if m.len() > 0 {
        lemma_step_map(m, 0, m.len() - 1);
        if a < m.len() { lemma_step_map(m, a, m.len() - 1); lemma_step_map(m, 0, a); }
        if b < m.len() { lemma_step_map(m, a, b); lemma_step_map(m, b, m.len() - 1); }
    }
}

impl UiTokenCollection {
    pub open spec fn inv(&self) -> bool { step_map(self.char_sizes@) && well_formed(self.tokens@, n_chars(self.char_sizes@)) }

/*@FN UiTokenCollection::add*/

/*@FN UiTokenCollection::add_from_regex_match*/

/*@FN UiTokenCollection::get_position*/

/*@FN UiTokenCollection::check_collision*/
}

// client lemma: any history of add_from_regex_match / add calls keeps the collection well formed
// (each call's contract re-establishes inv(); this exec client is checked against the contracts only)
fn client_three_matches(c: &mut UiTokenCollection, m1: Match, m2: Match, m3: Match)
    requires old(c).inv(), m1.s <= m1.e <= old(c).char_sizes@.len(), m2.s <= m2.e <= old(c).char_sizes@.len(), m3.s <= m3.e <= old(c).char_sizes@.len(),
    ensures final(c).inv(), // OBL:history_of_matches_keeps_the_collection_well_formed
{
    c.add_from_regex_match(Some(m1), UiTokenType::Number);
    c.add_from_regex_match(None, UiTokenType::Text);
    c.add_from_regex_match(Some(m2), UiTokenType::Operator);
    c.add_from_regex_match(Some(m3), UiTokenType::Comment);
}

// reachability behind the preconditions: a two-character line "é1" (3 bytes) satisfies inv()
proof fn witness_inv_is_satisfiable()
    ensures exists|m: Seq<usize>| step_map(m) && n_chars(m) == 2 && char_index(m, 2) == 1 && char_index(m, 3) == 2, // OBL:char_map_precondition_is_satisfiable
{
    let m = seq![0usize, 0usize, 1usize];
    assert(m[0] == 0 && m[1] == 0 && m[2] == 1);
    assert(step_map(m)) by {
        assert forall|i: int| 0 <= i < m.len() - 1 implies (#[trigger] m[i + 1] == m[i] || m[i + 1] == m[i] + 1) by {
            assert(i == 0 || i == 1);
        }
    }
    assert(m.last() == 1);
}

// vacuity canary: must be rejected on every run
proof fn canary_false() // CANARY
    ensures 1int == 2int, // CANARY
{
}

} // verus!
fn main() {}
