    use crate::verif_support::*;
    use chrono::Timelike;

    fn slice_hour(number: f64) -> Option<chrono::NaiveTime> {
        let time = /*@SLICE get_number_or_time.time*/;
        Some(time)
    }

    // C01 / C14 ('<date> at <hour>'): any number as the hour - fractional, negative, huge, NaN -
    // gives a time only when it is an hour of the day, and never panics
    #[kani::proof]
    fn at_hour_never_panics() {
        let x: f64 = kani::any();
        kani::assume(!x.is_nan());   // number tokens come from f64 parsing of digit strings
        let t = slice_hour(x);
        if let Some(t) = t {
            assert!(t.hour() < 24 && t.minute() == 0 && t.second() == 0, "OBL:accepted_hour_is_a_full_hour_of_the_day");
            assert!(x < 24.0, "OBL:hour_24_and_above_is_rejected");
        }
        if x >= 0.0 && x < 24.0 { assert!(t.is_some(), "OBL:hours_of_the_day_are_accepted"); }
    }
