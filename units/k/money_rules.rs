    use crate::verif_support::*;
    use alloc::rc::Rc;

    struct CurInfo { id: u8, code: String, symbol: String }
    struct RateTable { rates: [Option<f64>; 2] }
    impl RateTable { fn get(&self, c: &Rc<CurInfo>) -> Option<&f64> { self.rates[c.id as usize].as_ref() } }
    struct Cfg { currency_rate: RateTable }
    struct M(f64, Rc<CurInfo>);
    impl M { fn get_currency(&self) -> Rc<CurInfo> { self.1.clone() } fn get_price(&self) -> f64 { self.0 } }

    fn slice_convert(config: &Cfg, money: &M, to_currency: Rc<CurInfo>) -> core::result::Result<f64, String> {
        let as_usd = /*@SLICE convert_money.as_usd*/;
        let calculated_price = /*@SLICE convert_money.calculated_price*/;
        Ok(calculated_price)
    }

    // C06: 'X <from> to <to>' multiplies by rate(to)/rate(from): div(price, rate(from)) * rate(to);
    // a currency without a rate is an error value
    #[kani::proof]
    #[kani::stub(crate::tools::do_divition, crate::verif_support::div_probe)]
    fn convert_money_formula() {
        let price: f64 = kani::any();
        let rf: f64 = kani::any();
        let rt: f64 = kani::any();
        let has_f: bool = kani::any();
        let has_t: bool = kani::any();
        let cfg = Cfg { currency_rate: RateTable { rates: [if has_f { Some(rf) } else { None }, if has_t { Some(rt) } else { None }] } };
        // the source is USD itself or another currency (the rate table, not the code, decides the factor)
        let from_usd: bool = kani::any();
        let from = Rc::new(CurInfo { id: 0, code: if from_usd { "USD".to_string() } else { "TRY".to_string() }, symbol: "$".to_string() });
        let to = Rc::new(CurInfo { id: 1, code: "EUR".to_string(), symbol: "e".to_string() });
        let money = M(price, from.clone());
        let got = slice_convert(&cfg, &money, to.clone());
        kani::cover!(from_usd && has_f && has_t, "COVER:source_is_usd");
        if !has_f || !has_t {
            assert!(got.is_err(), "OBL:missing_rate_is_an_error_value");
        } else {
            assert!(got.is_ok(), "OBL:conversion_defined_when_both_rates_exist");
            let got = got.unwrap();
            if div_calls() == 0 {
                assert!(same_f64(got, spec_div(price, rf) * rt), "OBL:price_over_source_rate_times_target_rate");
            } else {
                assert!(div_calls() == 1 && div_was(0, price, rf), "OBL:divides_price_by_source_rate");
                assert!(same_f64(got, div_call(0).2 * rt), "OBL:price_over_source_rate_times_target_rate");
            }
        }
        core::mem::forget(cfg); core::mem::forget(money); core::mem::forget(from); core::mem::forget(to);
    }
