    use crate::verif_support::*;

    struct RateTable { from_rate: Option<f64>, to_rate: Option<f64> }
    struct Cfg { currency_rate: RateTable }
    #[derive(Clone, Copy, PartialEq)] enum Cur { From, To }
    impl RateTable { fn get(&self, c: &Cur) -> Option<&f64> { match c { Cur::From => self.from_rate.as_ref(), Cur::To => self.to_rate.as_ref() } } }
    struct M { price: f64 }
    impl M { fn get_currency(&self) -> Cur { Cur::From } fn get_price(&self) -> f64 { self.price } }

    fn slice_convert(config: &Cfg, money: &M, to_currency: Cur) -> core::result::Result<f64, String> {
        let as_usd = /*@SLICE convert_money.as_usd*/;
        let calculated_price = /*@SLICE convert_money.calculated_price*/;
        Ok(calculated_price)
    }

    // C06: 'X <from> to <to>' multiplies by rate(to)/rate(from): div(price, rate(from)) * rate(to)
    #[kani::proof]
    #[kani::stub(crate::tools::do_divition, crate::verif_support::div_probe)]
    fn convert_money_formula() {
        let price: f64 = kani::any();
        let rf: f64 = kani::any();
        let rt: f64 = kani::any();
        let cfg = Cfg { currency_rate: RateTable { from_rate: Some(rf), to_rate: Some(rt) } };
        let got = slice_convert(&cfg, &M { price }, Cur::To);
        assert!(got.is_ok(), "OBL:conversion_defined_when_both_rates_exist");
        let got = match got { Ok(g) => g, Err(e) => { core::mem::forget(e); 0.0 } };
        if div_calls() == 0 {
            assert!(same_f64(got, spec_div(price, rf) * rt), "OBL:price_over_source_rate_times_target_rate");
        } else {
            assert!(div_calls() == 1 && div_was(0, price, rf), "OBL:divides_price_by_source_rate");
            assert!(same_f64(got, div_call(0).2 * rt), "OBL:price_over_source_rate_times_target_rate");
        }
    }

    // a currency without a rate is an error value
    #[kani::proof]
    #[kani::stub(crate::tools::do_divition, crate::verif_support::div_probe)]
    #[kani::unwind(40)]
    fn convert_money_missing_rate() {
        let has_f: bool = kani::any();
        let has_t: bool = kani::any();
        kani::assume(!has_f || !has_t);
        let cfg = Cfg { currency_rate: RateTable { from_rate: if has_f { Some(kani::any()) } else { None }, to_rate: if has_t { Some(kani::any()) } else { None } } };
        let got = slice_convert(&cfg, &M { price: kani::any() }, Cur::To);
        assert!(got.is_err(), "OBL:missing_rate_is_an_error_value");
        core::mem::forget(got);
    }
