    // C03: every occurrence of a (possibly multi-word) name is found: find_location returns the
    // FIRST index at which the needle occurs in the token list, and None only if it occurs nowhere
    #[kani::proof]
    fn first_occurrence() {
        let hay: [u8; 5] = [kani::any(), kani::any(), kani::any(), kani::any(), kani::any()];
        let needle: [u8; 3] = [kani::any(), kani::any(), kani::any()];
        let n: usize = kani::any();
        let m: usize = kani::any();
        kani::assume(n <= 5 && m >= 1 && m <= 3);
        kani::assume(hay[0] < 2 && hay[1] < 2 && hay[2] < 2 && hay[3] < 2 && hay[4] < 2 && needle[0] < 2 && needle[1] < 2 && needle[2] < 2);
        let tokens: [Rc<u8>; 5] = [Rc::new(hay[0]), Rc::new(hay[1]), Rc::new(hay[2]), Rc::new(hay[3]), Rc::new(hay[4])];
        let rule: [Rc<u8>; 3] = [Rc::new(needle[0]), Rc::new(needle[1]), Rc::new(needle[2])];
        let got = find_location(&tokens[..n], &rule[..m]);
        // spec: first s with hay[s..s+m] == needle[..m]
        let mut want: Option<usize> = None;
        let mut s = 0;
        while s < 5 {
            if want.is_none() && s + m <= n {
                let mut all = true;
                let mut k = 0;
                while k < 3 { if k < m && hay[s + k] != needle[k] { all = false; } k += 1; }
                if all { want = Some(s); }
            }
            s += 1;
        }
        kani::cover!(want == Some(1) && m == 2 && hay[0] == needle[0], "COVER:occurrence_right_after_a_false_start");
        if let Some(g) = got {
            assert!(g + m <= n, "OBL:reported_position_is_in_range");
        }
        assert!(got.is_some() == want.is_some(), "OBL:found_iff_the_name_occurs");
        assert!(got == want, "OBL:position_is_the_first_occurrence");
        core::mem::forget(tokens);
        core::mem::forget(rule);
    }
