    use crate::verif_support::*;

    fn slice_divider(decimal_digits: u8) -> f64 {
        let divider = /*@SLICE format_number.divider*/;
        divider as f64
    }

    // C01: every digit count settable through set_number_configuration (any u8) must not abort printing
    #[kani::proof]
    fn divider_never_panics() {
        let d: u8 = kani::any();
        let v = slice_divider(d);
        // (CBMC leaves powi's value unconstrained, so only absence of a panic is decided here)
        assert!(v == v || v != v, "OBL:scaling_factor_is_computed_without_panic");
    }
