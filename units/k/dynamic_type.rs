    use crate::verif_support::*;

    fn unit(name: &str, index: usize) -> Rc<DynamicType> {
        let mut names = Vec::with_capacity(1);
        names.push(name.to_string());
        Rc::new(DynamicType { group_name: String::new(), index, format: String::new(), parse: Vec::new(),
                              upgrade_code: String::new(), downgrade_code: String::new(), names,
                              decimal_digits: None, use_fract_rounding: None, remove_fract_if_zero: None })
    }

    // recording stand-in for DynamicTypeItem::convert
    static mut CONV_CALLS: usize = 0;
    static mut CONV_NUMBER: f64 = 0.0;
    static mut CONV_SOURCE_IS_RIGHT_UNIT: bool = false;
    static mut CONV_TARGET_IS_LEFT_NAME: bool = false;
    static mut CONV_OUT: f64 = 0.0;
    static mut RIGHT_UNIT: *const DynamicType = core::ptr::null();
    static mut LEFT_UNIT: Option<Rc<DynamicType>> = None;
    fn convert_probe(_config: &SmartCalcConfig, number: f64, source_type: Rc<DynamicType>, target_type: String) -> Option<(f64, Rc<DynamicType>)> {
        let c: f64 = kani::any();
        unsafe {
            CONV_CALLS += 1;
            CONV_NUMBER = number;
            CONV_SOURCE_IS_RIGHT_UNIT = Rc::as_ptr(&source_type) == RIGHT_UNIT;
            CONV_TARGET_IS_LEFT_NAME = target_type.len() == 1 && target_type.as_bytes()[0] == b'm';
            CONV_OUT = c;
        }
        core::mem::forget(target_type);
        let t = unsafe { LEFT_UNIT.clone() };
        match t { Some(t) => { core::mem::forget(source_type); Some((c, t)) }, None => None }
    }
    fn leak<T>(x: T) { core::mem::forget(x) }

    // C12: arithmetic between quantities of one kind converts the RIGHT operand into the LEFT
    // operand's unit and keeps the left unit; the ratio of two quantities is a plain number
    fn quantity_op_quantity(k: u8) {
        let cfg = empty_config();
        let m = unit("m", 3);
        let km = unit("k", 6);
        unsafe { RIGHT_UNIT = Rc::as_ptr(&km); LEFT_UNIT = Some(m.clone()); }
        let a: f64 = kani::any();
        let b: f64 = kani::any();
        let left = DynamicTypeItem(a, m.clone());
        let right = DynamicTypeItem(b, km.clone());
        let r = left.calculate(&cfg, true, &right, op_of(k));
        assert!(r.is_some(), "OBL:quantity_op_quantity_defined");
        let r = r.unwrap();
        unsafe {
            assert!(CONV_CALLS == 1 && CONV_SOURCE_IS_RIGHT_UNIT && CONV_TARGET_IS_LEFT_NAME && same_f64(CONV_NUMBER, b),
                    "OBL:right_operand_is_converted_into_the_left_unit");
        }
        let c = unsafe { CONV_OUT };
        if k == 1 {
            let n = r.as_any().downcast_ref::<NumberItem>();
            assert!(n.is_some(), "OBL:ratio_of_two_quantities_is_a_plain_number");
            assert!(div_calls() == 1 && div_was(0, a, c), "OBL:ratio_divides_left_amount_by_converted_right");
            assert!(same_f64(n.unwrap().0, div_call(0).2), "OBL:ratio_value");
        } else {
            let q = r.as_any().downcast_ref::<DynamicTypeItem>();
            assert!(q.is_some(), "OBL:result_is_a_quantity");
            let q = q.unwrap();
            assert!(Rc::ptr_eq(&q.1, &m), "OBL:keeps_left_unit");
            let want = match k { 0 => a + c, _ => a - c };
            assert!(same_f64(q.0, want), "OBL:left_amount_op_converted_right");
        }
        leak(r); leak(left); leak(right); leak(m); leak(km); leak(cfg);
    }
    #[kani::proof]
    #[kani::stub(DynamicTypeItem::convert, convert_probe)]
    #[kani::stub(crate::tools::do_divition, crate::verif_support::div_probe)]
    fn quantity_op_quantity_add() { quantity_op_quantity(0) }
    #[kani::proof]
    #[kani::stub(DynamicTypeItem::convert, convert_probe)]
    #[kani::stub(crate::tools::do_divition, crate::verif_support::div_probe)]
    fn quantity_op_quantity_sub() { quantity_op_quantity(3) }
    #[kani::proof]
    #[kani::stub(DynamicTypeItem::convert, convert_probe)]
    #[kani::stub(crate::tools::do_divition, crate::verif_support::div_probe)]
    fn quantity_op_quantity_div() { quantity_op_quantity(1) }

    // C12: scaling by a number keeps the unit
    fn quantity_op_number(k: u8) {
        let cfg = empty_config();
        let m = unit("m", 3);
        let a: f64 = kani::any();
        let b: f64 = kani::any();
        let left = DynamicTypeItem(a, m.clone());
        let r = left.calculate(&cfg, true, &NumberItem(b, NumberType::Decimal), op_of(k));
        assert!(r.is_some(), "OBL:quantity_op_number_defined");
        let r = r.unwrap();
        let q = r.as_any().downcast_ref::<DynamicTypeItem>();
        assert!(q.is_some(), "OBL:result_is_a_quantity");
        let q = q.unwrap();
        assert!(Rc::ptr_eq(&q.1, &m), "OBL:keeps_the_unit");
        if k == 1 && div_calls() > 0 {
            assert!(div_calls() == 1 && div_was(0, a, b), "OBL:divides_amount_by_number");
            assert!(same_f64(q.0, div_call(0).2), "OBL:scaled_amount");
        } else {
            assert!(same_f64(q.0, spec_binop(k, a, b)), "OBL:scaled_amount");
        }
        leak(r); leak(left); leak(m); leak(cfg);
    }
    #[kani::proof]
    #[kani::stub(crate::tools::do_divition, crate::verif_support::div_probe)]
    fn quantity_op_number_add() { quantity_op_number(0) }
    #[kani::proof]
    #[kani::stub(crate::tools::do_divition, crate::verif_support::div_probe)]
    fn quantity_op_number_sub() { quantity_op_number(3) }
    #[kani::proof]
    #[kani::stub(crate::tools::do_divition, crate::verif_support::div_probe)]
    fn quantity_op_number_div() { quantity_op_number(1) }
    #[kani::proof]
    #[kani::stub(crate::tools::do_divition, crate::verif_support::div_probe)]
    fn quantity_op_number_mul() { quantity_op_number(2) }
