    use crate::verif_support::*;
    use chrono::{NaiveDate, Datelike, Timelike};

    fn slice_from_unix(timestamp: f64) -> core::result::Result<NaiveDateTime, String> {
        let date = /*@SLICE from_unixtime.date*/;
        Ok(date)
    }
    // the three getters of to_unixtime as parameters
    struct Fields { time: Option<(NaiveDateTime, TimeOffset)>, date: Option<(NaiveDate, TimeOffset)>, date_time: Option<(NaiveDateTime, TimeOffset)> }
    fn get_time(_: &str, f: &Fields) -> Option<(NaiveDateTime, TimeOffset)> { f.time.clone() }
    fn get_date(_: &str, f: &Fields) -> Option<(NaiveDate, TimeOffset)> { f.date.clone() }
    fn get_date_time(_: &str, f: &Fields) -> Option<(NaiveDateTime, TimeOffset)> { f.date_time.clone() }
    fn slice_to_unix(fields: &Fields) -> i64 {
        let timestamp = /*@SLICE to_unixtime.timestamp*/;
        timestamp
    }
    fn tz() -> TimeOffset { TimeOffset { name: String::new(), offset: 0 } }

    // C11: converting to another zone keeps the instant and only replaces the display zone
    fn slice_convert_tz(fields: &Fields, offset: TimeOffset) -> core::result::Result<TokenType, String> {
        return /*@SLICE convert_timezone.result*/;
    }
    #[kani::proof]
    fn convert_timezone_keeps_the_instant() {
        // the instant is passed through untouched, so its value range is irrelevant to the clause:
        // any second of 2020-01-01 .. 2020-01-12
        let n: u32 = kani::any();
        kani::assume(n < 1_000_000);
        let dt = NaiveDate::from_ymd_opt(2020, 1, 1).unwrap().and_hms_opt(0, 0, 0).unwrap() + chrono::Duration::seconds(n as i64);
        let old = TimeOffset { name: String::new(), offset: kani::any() };
        let new_off: i32 = kani::any();
        let new = TimeOffset { name: String::new(), offset: new_off };
        let which: u8 = kani::any();
        kani::assume(which < 4);
        let f = match which {
            0 => Fields { time: Some((dt, old.clone())), date: None, date_time: None },
            1 => Fields { time: None, date: Some((dt.date(), old.clone())), date_time: None },
            2 => Fields { time: None, date: None, date_time: Some((dt, old.clone())) },
            _ => Fields { time: None, date: None, date_time: None },
        };
        let r = slice_convert_tz(&f, new);
        match (which, &r) {
            (0, Ok(TokenType::Time(t, o))) => { assert!(*t == dt, "OBL:time_instant_is_unchanged"); assert!(o.offset == new_off, "OBL:time_gets_the_target_zone"); }
            (1, Ok(TokenType::Date(d, o))) => { assert!(*d == dt.date(), "OBL:date_is_unchanged"); assert!(o.offset == new_off, "OBL:date_gets_the_target_zone"); }
            (2, Ok(TokenType::DateTime(t, o))) => { assert!(*t == dt, "OBL:datetime_instant_is_unchanged"); assert!(o.offset == new_off, "OBL:datetime_gets_the_target_zone"); }
            (3, Err(_)) => {}
            _ => { assert!(false, "OBL:result_kind_matches_operand_kind"); }
        }
        core::mem::forget(r); core::mem::forget(f);
    }

    // C14: 'N to date' is the instant N seconds after the epoch; '<date-time> as unix' is the seconds
    // to that instant; the two are mutually inverse (all timestamps of years 1..9999, negative included)
    #[kani::proof]
    fn unix_to_datetime_and_back() { unix_roundtrip(-2_147_483_648, 2_147_483_648) }   // 1901..2038, all 32-bit timestamps
    #[kani::proof]
    fn unix_to_datetime_and_back_window_2023() { unix_roundtrip(1_700_000_000, 1_968_435_456) }
    #[kani::proof]
    fn unix_to_datetime_and_back_window_1938() { unix_roundtrip(-1_268_435_456, -1_000_000_000) }
    fn unix_roundtrip(lo: i64, hi: i64) {
        let n: i64 = kani::any();
        kani::assume(n >= lo && n < hi);
        let dt = slice_from_unix(n as f64);
        assert!(dt.is_ok(), "OBL:timestamps_of_years_1_to_9999_are_accepted");
        let dt = dt.unwrap();
        // seconds after 1970-01-01 00:00:00 UTC
        let epoch = NaiveDate::from_ymd_opt(1970, 1, 1).unwrap().and_hms_opt(0, 0, 0).unwrap();
        assert!(dt.signed_duration_since(epoch) == chrono::Duration::seconds(n), "OBL:n_seconds_after_the_epoch");
        let back = slice_to_unix(&Fields { time: None, date: None, date_time: Some((dt, tz())) });
        assert!(back == n, "OBL:timestamp_to_datetime_and_back_is_identity");
    }

    #[kani::proof]
    fn to_unix_arms() { to_unix_arms_in(0, 2_147_483_648) }   // 1970..2038
    #[kani::proof]
    fn to_unix_arms_window_2023() { to_unix_arms_in(1_700_000_000, 1_968_435_456) }
    fn to_unix_arms_in(lo: i64, hi: i64) {
        let n: i64 = kani::any();
        kani::assume(n >= lo && n < hi);
        let dt = match chrono::DateTime::<chrono::Utc>::from_timestamp(n, 0) { Some(t) => t.naive_utc(), None => { kani::assume(false); unreachable!() } };
        // a clock time: seconds to that instant
        let as_time = slice_to_unix(&Fields { time: Some((dt, TimeOffset { name: String::new(), offset: kani::any() })), date: None, date_time: None });
        assert!(as_time == n, "OBL:time_as_unix_is_seconds_to_that_instant");
        // a date: seconds to midnight UTC of that date
        // ... whatever zone is attached to the date
        let as_date = slice_to_unix(&Fields { time: None, date: Some((dt.date(), TimeOffset { name: String::new(), offset: kani::any() })), date_time: None });
        assert!(as_date == n - dt.num_seconds_from_midnight() as i64, "OBL:date_as_unix_is_seconds_to_midnight_utc");
        assert!(as_date % 86400 == 0, "OBL:date_as_unix_is_whole_days");
        // time wins over date over date-time when several are present (as coded); nothing -> 0
        let none = slice_to_unix(&Fields { time: None, date: None, date_time: None });
        assert!(none == 0, "OBL:no_operand_gives_zero");
    }

    // C01: a number that is not a representable timestamp must not abort the evaluation
    #[kani::proof]
    fn from_unixtime_out_of_range() {
        let x: f64 = kani::any();
        let r = slice_from_unix(x);
        if x.is_nan() { assert!(r.is_ok(), "OBL:nan_reads_as_zero_timestamp"); }
    }
