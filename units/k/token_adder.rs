    // stand-ins (shadow the glob imports): only what the body touches
    #[derive(Clone, Copy, PartialEq, Debug)]
    pub enum NumberType { Decimal }
    #[derive(Clone, Copy, PartialEq, Debug)]
    pub enum TokenType { Operator(char), Number(f64, NumberType), Other(u8) }
    // a fixed-capacity vector with the five Vec operations the body uses (is_empty, len, iter, [i],
    // insert); alloc's Vec::insert with a symbolic index and length exhausts CBMC's memory
    pub struct TV { buf: [Option<Rc<TokenType>>; 12], len: usize }
    impl TV {
        fn new() -> TV { TV { buf: [None, None, None, None, None, None, None, None, None, None, None, None], len: 0 } }
        fn is_empty(&self) -> bool { self.len == 0 }
        fn len(&self) -> usize { self.len }
        fn push(&mut self, x: Rc<TokenType>) { self.buf[self.len] = Some(x); self.len += 1; }
        fn iter(&self) -> TVIter<'_> { TVIter { v: self, i: 0 } }
        fn insert(&mut self, index: usize, x: Rc<TokenType>) {
            assert!(index <= self.len && self.len < 12);
            let mut k = self.len;
            while k > index { self.buf[k] = self.buf[k - 1].take(); k -= 1; }
            self.buf[index] = Some(x);
            self.len += 1;
        }
    }
    pub struct TVIter<'a> { v: &'a TV, i: usize }
    impl<'a> Iterator for TVIter<'a> {
        type Item = &'a Rc<TokenType>;
        fn next(&mut self) -> Option<&'a Rc<TokenType>> { if self.i < self.v.len { self.i += 1; self.v.buf[self.i - 1].as_ref() } else { None } }
    }
    impl core::ops::Index<usize> for TV { type Output = Rc<TokenType>; fn index(&self, i: usize) -> &Rc<TokenType> { assert!(i < self.len); self.buf[i].as_ref().unwrap() } }
    pub struct Tok { tokens: TV }
    mod log { macro_rules! debug { ($($t:tt)*) => {} } pub(crate) use debug; }
    impl Tok {
        fn missing_token_adder(&mut self) {
            /*@SLICE missing_token_adder.body*/
        }
    }

    fn mk(k: u8) -> TokenType {
        match k { 0 => TokenType::Number(1.0, NumberType::Decimal), 1 => TokenType::Operator('+'), 2 => TokenType::Operator('-'), 3 => TokenType::Operator('*'),
                  4 => TokenType::Operator('/'), 5 => TokenType::Operator('('), 6 => TokenType::Operator(')'), 7 => TokenType::Operator('='), _ => TokenType::Other(k) }
    }
    fn is_op(t: &TokenType) -> bool { matches!(t, TokenType::Operator(_)) }

    // C02: operands written side by side without an operator are added; a leading sign gets an
    // implicit 0 in front; nothing else is changed
    #[kani::proof]
    fn implicit_plus_and_leading_zero() { implicit_plus(4) }
    #[kani::proof]
    fn implicit_plus_and_leading_zero_up_to_3() { implicit_plus(3) }
    fn implicit_plus(nmax: usize) {
        let n: usize = kani::any();
        kani::assume(n >= 2 && n <= nmax);
        let ks: [u8; 5] = [kani::any(), kani::any(), kani::any(), kani::any(), kani::any()];
        kani::assume(ks[0] < 10 && ks[1] < 10 && ks[2] < 10 && ks[3] < 10 && ks[4] < 10);
        // plain expressions (no '=' / '(' prefix handling here: the scan start is position 0)
        kani::assume(ks[0] != 7 && ks[1] != 7 && ks[2] != 7 && ks[3] != 7 && ks[4] != 7 && ks[0] != 5 && ks[1] != 5 && ks[2] != 5 && ks[3] != 5 && ks[4] != 5);
        let mut t = Tok { tokens: TV::new() };
        t.tokens.push(Rc::new(mk(ks[0]))); t.tokens.push(Rc::new(mk(ks[1])));
        if n > 2 { t.tokens.push(Rc::new(mk(ks[2]))); }
        if n > 3 { t.tokens.push(Rc::new(mk(ks[3]))); }
        if n > 4 { t.tokens.push(Rc::new(mk(ks[4]))); }
        t.missing_token_adder();
        let out = &t.tokens;
        // walk input and output together
        let mut i = 0usize;   // input position
        let mut o = 0usize;   // output position
        let lead_op = is_op(&mk(ks[0]));
        if lead_op {
            assert!(out.len() > 0 && *out[0] == TokenType::Number(0.0, NumberType::Decimal), "OBL:leading_operator_gets_an_implicit_zero");
            o = 1;
        }
        let mut prev_operand = lead_op && false;
        let mut step = 0;
        while step < 5 {
            if i < n {
                let cur = mk(ks[i]);
                let cur_is_operand = !is_op(&cur);
                if cur_is_operand && prev_operand {
                    assert!(o < out.len() && *out[o] == TokenType::Operator('+'), "OBL:adjacent_operands_get_an_implicit_plus");
                    o += 1;
                }
                assert!(o < out.len() && *out[o] == cur, "OBL:original_tokens_are_kept_in_order");
                o += 1;
                prev_operand = cur_is_operand;
                i += 1;
            }
            step += 1;
        }
        assert!(o == out.len(), "OBL:nothing_else_is_inserted");
        kani::cover!(lead_op && ks[0] == 1, "COVER:leading_plus");
        core::mem::forget(t);
    }
