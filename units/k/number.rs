    use crate::verif_support::*;
    use crate::compiler::duration::DurationItem;

    // C02 "four operators on doubles, division guarded", C13 "result keeps the left
    // operand's NumberType".  All f64 pairs, all four operators, both operand orders.
    #[kani::proof]
    #[kani::stub_verified(do_divition)]
    fn calc_number_number() {
        let cfg = empty_config();
        let a: f64 = kani::any();
        let b: f64 = kani::any();
        let on_left: bool = kani::any();
        let k: u8 = kani::any();
        kani::assume(k < 4);
        let nt = number_type_of(kani::any());
        let me = NumberItem(a, nt);
        let other = NumberItem(b, number_type_of(kani::any()));
        let r = me.calculate(&cfg, on_left, &other, op_of(k));
        assert!(r.is_some(), "OBL:number_op_number_is_defined");
        let r = r.unwrap();
        let n = r.as_any().downcast_ref::<NumberItem>();
        assert!(n.is_some(), "OBL:result_is_a_number");
        let n = n.unwrap();
        let (l, rr) = if on_left { (a, b) } else { (b, a) };
        kani::cover!(k == 1 && rr == 0.0, "COVER:division_by_zero");
        kani::cover!(k == 3 && !on_left, "COVER:sub_swapped");
        assert!(same_f64(n.0, spec_binop(k, l, rr)), "OBL:ieee_value_of_the_operator_in_operand_order");
        assert!(n.1 == nt, "OBL:keeps_receiver_number_type");
    }

    // C05: 'X + p%' / 'X - p%': the percent operand is first turned into that share of X.
    // Pinned IEEE expression: X (+|-) div(X,100)*p   (V-real lemma: == X*(1 +|- p/100)).
    #[kani::proof]
    #[kani::stub_verified(do_divition)]
    fn calc_number_percent() {
        let cfg = empty_config();
        let x: f64 = kani::any();
        let p: f64 = kani::any();
        let k: u8 = kani::any();
        kani::assume(k == 0 || k == 3);
        let me = NumberItem(x, NumberType::Decimal);
        let other = PercentItem(p);
        let r = me.calculate(&cfg, true, &other, op_of(k));
        assert!(r.is_some(), "OBL:number_op_percent_is_defined");
        let r = r.unwrap();
        let n = r.as_any().downcast_ref::<NumberItem>();
        assert!(n.is_some(), "OBL:result_is_a_number");
        let share = spec_div(x, 100.0) * p;
        let want = if k == 0 { x + share } else { x - share };
        kani::cover!(k == 3 && p == 100.0 && x == 5.0, "COVER:hundred_percent_off");
        assert!(same_f64(n.unwrap().0, want), "OBL:x_plus_minus_share_of_x");
        // the share itself, through the real PercentItem::get_number
        assert!(same_f64(other.get_number(&me), share), "OBL:percent_share_is_x_div_100_times_p");
    }

    #[kani::proof]
    fn calc_number_other_is_none() {
        let cfg = empty_config();
        let me = NumberItem(kani::any(), NumberType::Decimal);
        let secs: i64 = kani::any();
        kani::assume(secs > -1_000_000_000_000 && secs < 1_000_000_000_000);
        let other = DurationItem(chrono::Duration::seconds(secs));
        let k: u8 = kani::any();
        kani::assume(k < 4);
        let r = me.calculate(&cfg, kani::any(), &other, op_of(k));
        assert!(r.is_none(), "OBL:number_op_duration_is_undefined");
    }

    // C02: "a sign prefix negates its operand"
    #[kani::proof]
    fn unary_number() {
        let a: f64 = kani::any();
        let nt = number_type_of(kani::any());
        let me = NumberItem(a, nt);
        let m = me.unary(UnaryType::Minus);
        let m = m.as_any().downcast_ref::<NumberItem>().unwrap();
        assert!(same_f64(m.0, -a), "OBL:minus_negates");
        assert!(m.1 == nt, "OBL:minus_keeps_type");
        let p = me.unary(UnaryType::Plus);
        let p = p.as_any().downcast_ref::<NumberItem>().unwrap();
        assert!(same_f64(p.0, a), "OBL:plus_is_identity");
    }

    #[kani::proof]
    #[kani::stub_verified(do_divition)]
    fn canary_number() {
        let cfg = empty_config();
        let a: f64 = kani::any();
        let b: f64 = kani::any();
        let r = NumberItem(a, NumberType::Decimal).calculate(&cfg, true, &NumberItem(b, NumberType::Decimal), OperationType::Sub).unwrap();
        let n = r.as_any().downcast_ref::<NumberItem>().unwrap();
        assert!(same_f64(n.0, b - a), "OBL:canary_false_clause");
    }
