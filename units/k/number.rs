    use crate::verif_support::*;
    use crate::compiler::duration::DurationItem;

    // C02 "four operators on doubles, division guarded", C13 "result keeps the left
    // operand's NumberType".  All f64 pairs, all four operators, both operand orders.
    #[kani::proof]
    #[kani::stub(crate::tools::do_divition, crate::verif_support::div_probe)]
    fn calc_number_number() {
        let cfg = empty_config();
        let a: f64 = kani::any();
        let b: f64 = kani::any();
        let on_left: bool = kani::any();
        let k: u8 = kani::any();
        kani::assume(k < 4);
        let nt = number_type_of(kani::any());
        let me = NumberItem(a, nt);
        let other = NumberItem(b, number_type_of(kani::any()));
        let r = me.calculate(&cfg, on_left, &other, op_of(k));
        assert!(r.is_some(), "OBL:number_op_number_is_defined");
        let r = r.unwrap();
        let n = r.as_any().downcast_ref::<NumberItem>();
        assert!(n.is_some(), "OBL:result_is_a_number");
        let n = n.unwrap();
        let (l, rr) = if on_left { (a, b) } else { (b, a) };
        kani::cover!(k == 1 && rr == 0.0, "COVER:division_by_zero");
        kani::cover!(k == 3 && !on_left, "COVER:sub_swapped");
        if k == 1 && div_calls() > 0 {
            // modular: the quotient is whatever do_divition returns for exactly (l, rr)
            assert!(div_calls() == 1 && div_was(0, l, rr), "OBL:div_divides_left_by_right_in_operand_order");
            assert!(same_f64(n.0, div_call(0).2), "OBL:ieee_value_of_the_operator_in_operand_order");
        } else {
            assert!(same_f64(n.0, spec_binop(k, l, rr)), "OBL:ieee_value_of_the_operator_in_operand_order");
        }
        assert!(n.1 == nt, "OBL:keeps_receiver_number_type");
    }

    // C05: 'X + p%' / 'X - p%': the percent operand is first turned into "that share of X" by
    // the operand's own get_number (PercentItem::get_number, proved in percent:percent_share to be
    // div(X,100)*p), then added / subtracted.  Here the operand is a stand-in that reports
    // PercentItem's TypeId and answers get_number with an arbitrary recorded value s, so the
    // obligation is "result == X (+|-) s and the share was asked of X itself" for ANY callee.
    #[derive(Debug)]
    struct ShareProbe(f64, core::cell::Cell<u64>, core::cell::Cell<u32>);
    impl DataItem for ShareProbe {
        fn unary(&self, _: UnaryType) -> Rc<dyn DataItem> { Rc::new(NumberItem(0.0, NumberType::Decimal)) }
        fn is_same(&self, _: &dyn Any) -> bool { false }
        fn as_token_type(&self) -> TokenType { TokenType::Percent(0.0) }
        fn as_any(&self) -> &dyn Any { self }
        fn get_number(&self, other: &dyn DataItem) -> f64 { self.1.set(other.get_underlying_number().to_bits()); self.2.set(self.2.get() + 1); self.0 }
        fn get_underlying_number(&self) -> f64 { self.0 }
        fn type_name(&self) -> &'static str { "PERCENT" }
        fn type_id(&self) -> TypeId { TypeId::of::<PercentItem>() }
        fn calculate(&self, _: &SmartCalcConfig, _: bool, _: &dyn DataItem, _: OperationType) -> Option<Rc<dyn DataItem>> { None }
        fn print(&self, _: &SmartCalcConfig, _: &Session) -> String { String::new() }
    }

    #[kani::proof]
    fn calc_number_percent() {
        let cfg = empty_config();
        let x: f64 = kani::any();
        let s: f64 = kani::any();
        let k: u8 = kani::any();
        kani::assume(k == 0 || k == 3);
        let me = NumberItem(x, NumberType::Decimal);
        let other = ShareProbe(s, core::cell::Cell::new(0), core::cell::Cell::new(0));
        let r = me.calculate(&cfg, true, &other, op_of(k));
        assert!(r.is_some(), "OBL:number_op_percent_is_defined");
        let r = r.unwrap();
        let n = r.as_any().downcast_ref::<NumberItem>();
        assert!(n.is_some(), "OBL:result_is_a_number");
        assert!(other.2.get() == 1 && other.1.get() == x.to_bits(), "OBL:share_is_taken_of_x_itself");
        let want = if k == 0 { x + s } else { x - s };
        kani::cover!(k == 3, "COVER:minus");
        assert!(same_f64(n.unwrap().0, want), "OBL:x_plus_minus_share_of_x");
    }

    #[kani::proof]
    fn calc_number_other_is_none() {
        let cfg = empty_config();
        let me = NumberItem(kani::any(), NumberType::Decimal);
        let secs: i64 = kani::any();
        kani::assume(secs > -1_000_000_000_000 && secs < 1_000_000_000_000);
        let other = DurationItem(chrono::Duration::seconds(secs));
        let k: u8 = kani::any();
        kani::assume(k < 4);
        let r = me.calculate(&cfg, kani::any(), &other, op_of(k));
        assert!(r.is_none(), "OBL:number_op_duration_is_undefined");
    }

    // C02: "a sign prefix negates its operand"
    #[kani::proof]
    fn unary_number() {
        let a: f64 = kani::any();
        let nt = number_type_of(kani::any());
        let me = NumberItem(a, nt);
        let m = me.unary(UnaryType::Minus);
        let m = m.as_any().downcast_ref::<NumberItem>().unwrap();
        assert!(same_f64(m.0, -a), "OBL:minus_negates");
        assert!(m.1 == nt, "OBL:minus_keeps_type");
        let p = me.unary(UnaryType::Plus);
        let p = p.as_any().downcast_ref::<NumberItem>().unwrap();
        assert!(same_f64(p.0, a), "OBL:plus_is_identity");
    }

    #[kani::proof]
    fn canary_number() {
        let cfg = empty_config();
        let a: f64 = kani::any();
        let b: f64 = kani::any();
        let r = NumberItem(a, NumberType::Decimal).calculate(&cfg, true, &NumberItem(b, NumberType::Decimal), OperationType::Sub).unwrap();
        let n = r.as_any().downcast_ref::<NumberItem>().unwrap();
        assert!(same_f64(n.0, b - a), "OBL:canary_false_clause");
    }
