    use crate::verif_support::*;
    use core::cell::Cell;
    use alloc::vec::Vec as V;

    // A DataItem that records how the interpreter uses it.  `answer` = whether calculate returns Some.
    #[derive(Debug)]
    struct CalcProbe { id: u8, answer: bool, calls: Cell<u8>, on_left: Cell<bool>, other_id: Cell<u8>, op: Cell<u8>, unary_calls: Cell<u8>, unary_minus: Cell<bool> }
    impl CalcProbe {
        fn new(id: u8, answer: bool) -> Self { CalcProbe { id, answer, calls: Cell::new(0), on_left: Cell::new(false), other_id: Cell::new(0), op: Cell::new(9), unary_calls: Cell::new(0), unary_minus: Cell::new(false) } }
    }
    impl DataItem for CalcProbe {
        fn unary(&self, u: UnaryType) -> Rc<dyn DataItem> {
            self.unary_calls.set(self.unary_calls.get() + 1);
            self.unary_minus.set(matches!(u, UnaryType::Minus));
            Rc::new(CalcProbe::new(self.id + 100, true))
        }
        fn is_same(&self, _: &dyn Any) -> bool { false }
        fn as_token_type(&self) -> TokenType { TokenType::Month(self.id as u32) }
        fn as_any(&self) -> &dyn Any { self }
        fn get_number(&self, _: &dyn DataItem) -> f64 { self.id as f64 }
        fn get_underlying_number(&self) -> f64 { self.id as f64 }
        fn type_name(&self) -> &'static str { "PROBE" }
        fn type_id(&self) -> TypeId { TypeId::of::<CalcProbe>() }
        fn calculate(&self, _: &SmartCalcConfig, on_left: bool, other: &dyn DataItem, op: OperationType) -> Option<Rc<dyn DataItem>> {
            self.calls.set(self.calls.get() + 1);
            self.on_left.set(on_left);
            self.other_id.set(other.get_underlying_number() as u8);
            self.op.set(match op { OperationType::Add => 0, OperationType::Div => 1, OperationType::Mul => 2, OperationType::Sub => 3 });
            if self.answer { Some(Rc::new(CalcProbe::new(self.id + 50, true))) } else { None }
        }
        fn print(&self, _: &SmartCalcConfig, _: &Session) -> String { String::new() }
    }
    fn item(p: &Rc<CalcProbe>) -> Rc<SmartCalcAstType> { Rc::new(SmartCalcAstType::Item(p.clone() as Rc<dyn DataItem>)) }
    fn id_of(ast: &SmartCalcAstType) -> Option<u8> {
        match ast { SmartCalcAstType::Item(i) => i.as_any().downcast_ref::<CalcProbe>().map(|p| p.id), _ => None }
    }
    fn op_char(k: u8) -> char { match k { 0 => '+', 1 => '/', 2 => '*', 3 => '-', 4 => '%', _ => '^' } }

    // C02: a binary node over two item operands asks the LEFT item to calculate with the RIGHT item,
    // the left item being on the left, with the operation the operator character denotes;
    // an item that declines (None) or an unknown operator is an error value, never a panic.
    #[kani::proof]
    fn binary_on_items() {
        let cfg = empty_config();
        let session = Session::new();
        let answer: bool = kani::any();
        let l = Rc::new(CalcProbe::new(1, answer));
        let r = Rc::new(CalcProbe::new(2, true));
        let k: u8 = kani::any();
        kani::assume(k < 6);
        let res = Interpreter::executer_binary(&cfg, &session, item(&l), op_char(k), item(&r));
        if k < 4 {
            assert!(l.calls.get() == 1 && r.calls.get() == 0, "OBL:left_item_is_the_receiver_exactly_once");
            assert!(l.on_left.get(), "OBL:receiver_is_on_the_left");
            assert!(l.other_id.get() == 2, "OBL:right_item_is_the_argument");
            assert!(l.op.get() == k, "OBL:operator_char_selects_the_operation");
            if answer {
                assert!(res.is_ok(), "OBL:answer_is_returned");
                assert!(id_of(res.as_ref().unwrap()) == Some(51), "OBL:result_is_the_items_answer");
            } else {
                assert!(res.is_err(), "OBL:declined_calculation_is_an_error_value");
            }
        } else {
            assert!(res.is_err(), "OBL:unknown_operator_is_an_error_value");
            assert!(l.calls.get() == 0 && r.calls.get() == 0, "OBL:unknown_operator_calculates_nothing");
        }
    }

    // operands that are not items (None, Month, Symbol) give an error value
    #[kani::proof]
    fn binary_on_non_items() {
        let cfg = empty_config();
        let session = Session::new();
        let l = Rc::new(CalcProbe::new(1, true));
        let which: u8 = kani::any();
        kani::assume(which < 3);
        let other = Rc::new(match which { 0 => SmartCalcAstType::None, 1 => SmartCalcAstType::Month(3), _ => SmartCalcAstType::None });
        let item_left: bool = kani::any();
        let res = if item_left { Interpreter::executer_binary(&cfg, &session, item(&l), '+', other) }
                  else { Interpreter::executer_binary(&cfg, &session, other, '+', item(&l)) };
        assert!(res.is_err(), "OBL:non_item_operand_is_an_error_value");
        assert!(l.calls.get() == 0, "OBL:non_item_operand_calculates_nothing");
        let both = Interpreter::executer_binary(&cfg, &session, Rc::new(SmartCalcAstType::None), '+', Rc::new(SmartCalcAstType::Month(1)));
        assert!(both.is_err(), "OBL:two_non_items_is_an_error_value");
    }

    // C02: a sign prefix negates its operand ('-' -> unary(Minus)), '+' is the identity
    #[kani::proof]
    fn unary_on_item() {
        let cfg = empty_config();
        let session = Session::new();
        let p = Rc::new(CalcProbe::new(7, true));
        let k: u8 = kani::any();
        kani::assume(k < 3);
        let ch = match k { 0 => '-', 1 => '+', _ => '*' };
        let res = Interpreter::executer_unary(&cfg, &session, ch, item(&p));
        match k {
            0 => {
                assert!(res.is_ok(), "OBL:minus_prefix_is_defined");
                assert!(p.unary_calls.get() == 1 && p.unary_minus.get(), "OBL:minus_prefix_asks_item_to_negate_once");
                assert!(id_of(res.as_ref().unwrap()) == Some(107), "OBL:minus_prefix_returns_negated_item");
            }
            1 => {
                assert!(res.is_ok() && id_of(res.as_ref().unwrap()) == Some(7), "OBL:plus_prefix_is_identity");
                assert!(p.unary_calls.get() == 0, "OBL:plus_prefix_does_not_negate");
            }
            _ => { assert!(res.is_err(), "OBL:other_prefix_is_an_error_value"); }
        }
        let on_none = Interpreter::executer_unary(&cfg, &session, '-', Rc::new(SmartCalcAstType::None));
        assert!(on_none.is_err(), "OBL:minus_on_non_item_is_an_error_value");
    }

    fn var_with(ast: Rc<SmartCalcAstType>) -> Rc<VariableInfo> { Rc::new(VariableInfo { tokens: V::new(), data: core::cell::RefCell::new(ast) }) }

    // C03: an assignment stores the computed VALUE (not the expression) and returns it
    #[kani::proof]
    fn assignment_ok_stores_value() {
        let cfg = empty_config();
        let session = Session::new();
        let old = Rc::new(SmartCalcAstType::Month(1));
        let var = var_with(old.clone());
        let l = Rc::new(CalcProbe::new(1, true));
        let r = Rc::new(CalcProbe::new(2, true));
        let expr = Rc::new(SmartCalcAstType::Binary { left: item(&l), operator: '+', right: item(&r) });
        let res = Interpreter::executer_assignment(&cfg, &session, var.clone(), expr.clone());
        assert!(res.is_ok(), "OBL:assignment_of_good_expression_is_ok");
        let v = res.unwrap();
        assert!(id_of(&v) == Some(51), "OBL:assignment_returns_the_computed_value");
        assert!(Rc::ptr_eq(&var.data.borrow(), &v), "OBL:binding_holds_the_computed_value");
        assert!(!Rc::ptr_eq(&var.data.borrow(), &expr), "OBL:binding_is_a_value_not_the_expression");
        // later reads give that value
        let read = Interpreter::executer_variable(var.clone());
        assert!(Rc::ptr_eq(&read, &v), "OBL:variable_read_returns_the_binding");
    }

    // C03: a line that fails to evaluate leaves the existing binding unchanged
    #[kani::proof]
    fn assignment_err_keeps_binding() {
        let cfg = empty_config();
        let session = Session::new();
        let old = Rc::new(SmartCalcAstType::Month(1));
        let var = var_with(old.clone());
        let l = Rc::new(CalcProbe::new(1, false));   // declines -> evaluation error
        let r = Rc::new(CalcProbe::new(2, true));
        let which: u8 = kani::any();
        kani::assume(which < 3);
        let expr = Rc::new(match which {
            0 => SmartCalcAstType::Binary { left: item(&l), operator: '+', right: item(&r) },
            1 => SmartCalcAstType::Binary { left: item(&r), operator: '^', right: item(&r) },
            _ => SmartCalcAstType::PrefixUnary('-', Rc::new(SmartCalcAstType::None)),
        });
        let res = Interpreter::executer_assignment(&cfg, &session, var.clone(), expr);
        assert!(res.is_err(), "OBL:failing_expression_is_an_error_value");
        assert!(Rc::ptr_eq(&var.data.borrow(), &old), "OBL:failing_assignment_keeps_old_binding");
    }

    #[kani::proof]
    fn variable_reads_binding() {
        let cfg = empty_config();
        let session = Session::new();
        let p = Rc::new(CalcProbe::new(9, true));
        let bound = item(&p);
        let var = var_with(bound.clone());
        let res = Interpreter::execute(&cfg, Rc::new(SmartCalcAstType::Variable(var.clone())), &session);
        assert!(res.is_ok() && Rc::ptr_eq(res.as_ref().unwrap(), &bound), "OBL:variable_node_evaluates_to_its_binding");
        // using a variable as an operand uses its bound item
        let q = Rc::new(CalcProbe::new(3, true));
        let res = Interpreter::execute(&cfg, Rc::new(SmartCalcAstType::Binary { left: Rc::new(SmartCalcAstType::Variable(var)), operator: '*', right: item(&q) }), &session);
        assert!(res.is_ok() && p.calls.get() == 1 && p.other_id.get() == 3 && p.op.get() == 2, "OBL:variable_operand_denotes_its_binding");
    }

    // C02: nested nodes are evaluated operands first; (a op1 b) op2 c asks a first, then the answer
    #[kani::proof]
    fn nested_left_to_right() {
        let cfg = empty_config();
        let session = Session::new();
        let a = Rc::new(CalcProbe::new(1, true));
        let b = Rc::new(CalcProbe::new(2, true));
        let c = Rc::new(CalcProbe::new(3, true));
        let inner = Rc::new(SmartCalcAstType::Binary { left: item(&a), operator: '-', right: item(&b) });
        let left_nested: bool = kani::any();
        let ast = if left_nested { SmartCalcAstType::Binary { left: inner, operator: '/', right: item(&c) } }
                  else { SmartCalcAstType::Binary { left: item(&c), operator: '/', right: inner } };
        let res = Interpreter::execute(&cfg, Rc::new(ast), &session);
        assert!(res.is_ok(), "OBL:nested_is_defined");
        assert!(a.calls.get() == 1 && a.other_id.get() == 2 && a.op.get() == 3, "OBL:inner_node_is_a_minus_b");
        if left_nested {
            // (a-b)/c : the inner answer (id 51) is the receiver, c the argument; c itself is never a receiver
            assert!(c.calls.get() == 0, "OBL:outer_receiver_is_inner_answer");
            assert!(id_of(res.as_ref().unwrap()) == Some(101), "OBL:outer_result_comes_from_inner_answer");
        } else {
            assert!(c.calls.get() == 1 && c.other_id.get() == 51 && c.op.get() == 1, "OBL:outer_argument_is_inner_answer");
        }
    }

    #[kani::proof]
    fn canary_interp() {
        let cfg = empty_config();
        let session = Session::new();
        let l = Rc::new(CalcProbe::new(1, true));
        let r = Rc::new(CalcProbe::new(2, true));
        let _ = Interpreter::executer_binary(&cfg, &session, item(&l), '-', item(&r));
        assert!(l.op.get() == 0, "OBL:canary_false_clause");
    }
