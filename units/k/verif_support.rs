// Injected into scratch copies of smartcalc as `crate::verif_support` (cfg(kani) only).
// Spec-side helpers shared by the harness modules.  Nothing here is code under
// verification; every function is either a constructor for inputs or a spec function
// that mirrors the evaluation order written in the property statement.
use alloc::collections::BTreeMap;
use alloc::rc::Rc;
use alloc::string::{String, ToString};
use alloc::vec::Vec;
use crate::config::{SmartCalcConfig, MoneyConfig, NumberConfig};
use crate::constants::JsonConstant;
use crate::types::{NumberType, CurrencyInfo};
use crate::compiler::{OperationType, UnaryType};

/// A configuration with empty tables, built by struct literal (no JSON, no regex).
pub(crate) fn empty_config() -> SmartCalcConfig {
    SmartCalcConfig {
        json_data: JsonConstant::default(),
        format: BTreeMap::new(),
        currency: BTreeMap::new(),
        currency_alias: BTreeMap::new(),
        timezones: BTreeMap::new(),
        currency_rate: BTreeMap::new(),
        token_parse_regex: BTreeMap::new(),
        word_group: BTreeMap::new(),
        constant_pair: BTreeMap::new(),
        language_alias_regex: BTreeMap::new(),
        alias_regex: Vec::new(),
        rule: BTreeMap::new(),
        types: BTreeMap::new(),
        type_conversion: Vec::new(),
        month_regex: BTreeMap::new(),
        money_config: MoneyConfig { remove_fract_if_zero: false, use_fract_rounding: true },
        number_config: NumberConfig { decimal_digits: 2, remove_fract_if_zero: true, use_fract_rounding: true },
        percentage_config: NumberConfig { decimal_digits: 2, remove_fract_if_zero: true, use_fract_rounding: true },
        decimal_seperator: String::new(),
        thousand_separator: String::new(),
        timezone: String::new(),
        timezone_offset: 0,
    }
}

pub(crate) fn currency(code: &str) -> Rc<CurrencyInfo> {
    Rc::new(CurrencyInfo {
        code: code.to_string(), symbol: String::new(), thousands_separator: String::new(),
        decimal_separator: String::new(), symbol_on_left: true,
        space_between_amount_and_symbol: false, decimal_digits: 2,
    })
}

/// a currency record without heap strings (identity by Rc pointer only)
pub(crate) fn currency_anon() -> Rc<CurrencyInfo> {
    Rc::new(CurrencyInfo {
        code: String::new(), symbol: String::new(), thousands_separator: String::new(),
        decimal_separator: String::new(), symbol_on_left: true,
        space_between_amount_and_symbol: false, decimal_digits: 2,
    })
}

/// IEEE value equality that identifies all NaNs (+0.0 and -0.0 are the same value; where
/// the sign of a zero matters the clause says so with to_bits()).  Deliberately written with
/// float-level operations only: under the FPA theory a to_bits() costs a fresh bit-vector.
pub(crate) fn same_f64(a: f64, b: f64) -> bool {
    (a.is_nan() && b.is_nan()) || a == b
}

/// Spec of guarded division (property C02: "division by zero yields 0"): the IEEE
/// quotient when it is finite, +0.0 otherwise.
pub(crate) fn spec_div(l: f64, r: f64) -> f64 {
    let q = l / r;
    if q.is_finite() { q } else { 0.0 }
}

pub(crate) fn op_of(k: u8) -> OperationType {
    match k { 0 => OperationType::Add, 1 => OperationType::Div, 2 => OperationType::Mul, _ => OperationType::Sub }
}

/// the IEEE value the property assigns to `l <op> r` (C02)
pub(crate) fn spec_binop(k: u8, l: f64, r: f64) -> f64 {
    match k { 0 => l + r, 1 => spec_div(l, r), 2 => l * r, _ => l - r }
}

pub(crate) fn number_type_of(k: u8) -> NumberType {
    match k { 0 => NumberType::Decimal, 1 => NumberType::Octal, 2 => NumberType::Hexadecimal, 3 => NumberType::Binary, _ => NumberType::Raw }
}

// ---- modular treatment of the callee `do_divition` -------------------------------
// Callers are verified with `#[kani::stub(crate::tools::do_divition, crate::verif_support::div_probe)]`:
// the callee becomes an arbitrary function (every call returns an unconstrained f64) and
// the probe records the arguments and the value handed back.  A caller's obligations then
// read "divides exactly <l> by <r>, exactly once, and combines the quotient q as <expr(q)>",
// which holds for ANY behaviour of the callee; together with the callee's own contract
// (tools:do_divition_contract: do_divition(l, r) == spec_div(l, r) bit for bit) this gives the
// formula in the property.  No float operation is ever compared with a re-computation of
// itself on different terms, so the solver only needs congruence.
pub(crate) static mut DIV_CALLS: usize = 0;
pub(crate) static mut DIV_L: [f64; 4] = [0.0; 4];
pub(crate) static mut DIV_R: [f64; 4] = [0.0; 4];
pub(crate) static mut DIV_Q: [f64; 4] = [0.0; 4];

pub(crate) fn div_probe(left: f64, right: f64) -> f64 {
    let q: f64 = kani::any();
    unsafe {
        let i = DIV_CALLS;
        if i < 4 {
            DIV_L[i] = left;
            DIV_R[i] = right;
            DIV_Q[i] = q;
        }
        DIV_CALLS = i + 1;
    }
    q
}
/// number of do_divition calls seen by the probe (0 in a native replay, where the real callee runs)
pub(crate) fn div_calls() -> usize { unsafe { DIV_CALLS } }
pub(crate) fn div_call(i: usize) -> (f64, f64, f64) {
    unsafe { (DIV_L[i], DIV_R[i], DIV_Q[i]) }
}
/// "the i-th division was l / r": bit-exact on both arguments
pub(crate) fn div_was(i: usize, l: f64, r: f64) -> bool {
    let (a, b, _) = div_call(i);
    same_f64(a, l) && same_f64(b, r)
}

// ---- wall clock ------------------------------------------------------------------
// `chrono::Utc::now()` is a system call; harnesses replace it by an arbitrary instant of the
// years 1970..2200 (`#[kani::stub(chrono::Utc::now, crate::verif_support::any_now)]`).
pub(crate) fn any_now() -> chrono::DateTime<chrono::Utc> {
    let secs: i64 = kani::any();
    kani::assume(secs >= 0 && secs < 7_258_118_400);
    match chrono::DateTime::<chrono::Utc>::from_timestamp(secs, 0) {
        Some(t) => t,
        None => { kani::assume(false); unreachable!() }
    }
}

/// chrono's TimeDelta holds |seconds| <= i64::MAX / 1000
pub(crate) const CHRONO_MAX_SECS: i64 = i64::MAX / 1000;
pub(crate) fn any_duration() -> chrono::Duration {
    let s: i64 = kani::any();
    kani::assume(s >= -CHRONO_MAX_SECS && s <= CHRONO_MAX_SECS);
    chrono::Duration::seconds(s)
}
