    use crate::verif_support::*;
    use chrono::{NaiveDate, NaiveDateTime};

    fn slice_parse(constant_type: ConstantType, duration: i64) -> core::result::Result<Duration, String> {
        let calculated_duration = /*@SLICE duration_parse.calculated_duration*/;
        match calculated_duration { Some(d) => Ok(d), None => Err(String::new()) }
    }

    // C01: no count, however large, may abort the evaluation (all i64 counts, every unit word)
    #[kani::proof]
    fn parse_never_panics() {
        let n: i64 = kani::any();
        let k: u8 = kani::any();
        kani::assume(k >= 1 && k <= 11);
        let ct = match ConstantType::from_u8(k) { Some(c) => c, None => { kani::assume(false); unreachable!() } };
        let r = slice_parse(ct, n);
        if let Ok(d) = r { assert!(d.num_seconds().checked_abs().is_some(), "OBL:accepted_duration_is_in_chrono_range"); }
    }

    // C10: 'N unit' denotes N times the unit's length (counts 0..10^6 as the property quantifies);
    // one harness per unit so the length is a literal.
    fn parse_unit(ct: ConstantType, len: i64, max: i64) {
        let n: i64 = kani::any();
        kani::assume(n >= 0 && n <= max);
        let r = slice_parse(ct, n);
        assert!(r.is_ok(), "OBL:unit_count_is_defined");
        assert!(r.unwrap() == Duration::seconds(n * len), "OBL:n_units_is_n_times_unit_length");
    }
    #[kani::proof]
    fn parse_years() { parse_unit(ConstantType::Year, 365 * 86400, 1_000_000) }
    #[kani::proof]
    fn parse_years_below_4096() { parse_unit(ConstantType::Year, 365 * 86400, 4095) }
    #[kani::proof]
    fn parse_weeks() { parse_unit(ConstantType::Week, 7 * 86400, 1_000_000) }
    #[kani::proof]
    fn parse_hours() { parse_unit(ConstantType::Hour, 3600, 1_000_000) }
    #[kani::proof]
    fn parse_minutes() { parse_unit(ConstantType::Minute, 60, 1_000_000) }
    #[kani::proof]
    fn parse_seconds() { parse_unit(ConstantType::Second, 1, 1_000_000) }
    #[kani::proof]
    fn parse_non_unit_is_error() {
        let n: i64 = kani::any();
        kani::assume(n >= 0 && n <= 1_000_000);
        assert!(slice_parse(ConstantType::Today, n).is_err(), "OBL:non_unit_word_is_an_error_value");
        assert!(slice_parse(ConstantType::Now, n).is_err(), "OBL:now_is_not_a_unit");
    }

    // C10: month 30 days with twelve months making one year (365 days); N days is exactly N days
    #[kani::proof]
    fn parse_months_and_days() {
        let n: i64 = kani::any();
        kani::assume(n >= 0 && n <= 1_000_000);
        let m = slice_parse(ConstantType::Month, n).unwrap();
        assert!(m == Duration::days(365 * (n / 12) + 30 * (n % 12)), "OBL:twelve_months_make_a_year_rest_30_days_each");
        kani::cover!(n == 14, "COVER:fourteen_months");
        let d = slice_parse(ConstantType::Day, n).unwrap();
        // pinned expression; Verus lemma duration_algebra::day_split_resums proves it equals n
        assert!(d == Duration::days(365 * (n / 365) + 30 * ((n % 365) / 30) + (n % 365) % 30), "OBL:n_days_split_into_years_months_days");
        kani::cover!(n % 365 >= 360, "COVER:days_near_a_year_boundary");
    }

    fn slice_as_duration(constant_type: ConstantType, seconds: i64) -> core::result::Result<TokenType, String> {
        return /*@SLICE as_duration.duration_arm*/;
    }
    fn slice_as_time(constant_type: ConstantType, seconds: i64) -> core::result::Result<TokenType, String> {
        return /*@SLICE as_duration.time_arm*/;
    }
    fn secs_of(t: core::result::Result<TokenType, String>) -> Option<i64> {
        match t { Ok(TokenType::Duration(d)) => Some(d.num_seconds()), _ => None }
    }

    // C10: 'D as seconds|minutes|hours|days|weeks' is D rounded DOWN to a whole number of that unit.
    // One harness per unit so that the unit length is a literal (the solver then only needs
    // congruence: code and clause are the same term).
    fn as_unit(ct: ConstantType, len: i64, max: i64) {
        let s: i64 = kani::any();
        kani::assume(s >= 0 && s <= max);
        let got = secs_of(slice_as_duration(ct, s));
        assert!(got.is_some(), "OBL:as_unit_is_defined");
        // pinned expression; Verus lemma duration_algebra::floor_to_unit proves
        // (s/len)*len <= s < (s/len)*len + len and that it is a whole multiple of len
        assert!(got.unwrap() == (s / len) * len, "OBL:whole_units_that_fit");
    }
    #[kani::proof]
    fn as_seconds() { as_unit(ConstantType::Second, 1, CHRONO_MAX_SECS) }
    #[kani::proof]
    fn as_seconds_below_2_31() { as_unit(ConstantType::Second, 1, 0x7fff_ffff) }
    #[kani::proof]
    fn as_minutes() { as_unit(ConstantType::Minute, 60, CHRONO_MAX_SECS) }
    #[kani::proof]
    fn as_minutes_below_2_31() { as_unit(ConstantType::Minute, 60, 0x7fff_ffff) }
    #[kani::proof]
    fn as_hours() { as_unit(ConstantType::Hour, 3600, CHRONO_MAX_SECS) }
    #[kani::proof]
    fn as_hours_below_2_31() { as_unit(ConstantType::Hour, 3600, 0x7fff_ffff) }
    #[kani::proof]
    fn as_days() { as_unit(ConstantType::Day, 86400, CHRONO_MAX_SECS) }
    #[kani::proof]
    fn as_days_below_2_31() { as_unit(ConstantType::Day, 86400, 0x7fff_ffff) }
    #[kani::proof]
    fn as_weeks() { as_unit(ConstantType::Week, 604800, 0xf_ffff_ffff) }   // 2^36 s = 2177 years
    #[kani::proof]
    fn as_weeks_below_2_31() { as_unit(ConstantType::Week, 604800, 0x7fff_ffff) }
    #[kani::proof]
    fn as_other_is_error() {
        let s: i64 = kani::any();
        kani::assume(s >= 0 && s <= CHRONO_MAX_SECS);
        assert!(slice_as_duration(ConstantType::Month, s).is_err(), "OBL:as_months_is_an_error_value");
        assert!(slice_as_duration(ConstantType::Year, s).is_err(), "OBL:as_years_is_an_error_value");
        assert!(slice_as_duration(ConstantType::Now, s).is_err(), "OBL:as_non_unit_is_an_error_value");
    }

    fn time_as(ct: ConstantType, len: i64) {
        let s: i64 = kani::any();
        kani::assume(s >= 0 && s < 86400);
        let got = secs_of(slice_as_time(ct, s));
        assert!(got.is_some(), "OBL:time_as_unit_is_defined");
        assert!(got.unwrap() == (s / len) * len, "OBL:time_of_day_whole_units_that_fit");
    }
    #[kani::proof]
    fn time_as_seconds() { time_as(ConstantType::Second, 1) }
    #[kani::proof]
    fn time_as_minutes() { time_as(ConstantType::Minute, 60) }
    #[kani::proof]
    fn time_as_hours() { time_as(ConstantType::Hour, 3600) }

    fn slice_date_diff(source: NaiveDate, target: NaiveDate) -> Duration { /*@SLICE to_duration.date_diff*/ }
    fn slice_time_diff(source: NaiveDateTime, target: NaiveDateTime) -> Duration { /*@SLICE to_duration.time_diff*/ }

    fn any_date_between(lo: i32, hi: i32) -> NaiveDate {
        let days: i32 = kani::any();
        kani::assume(days >= lo && days <= hi);
        match NaiveDate::from_num_days_from_ce_opt(days) { Some(d) => d, None => { kani::assume(false); unreachable!() } }
    }

    // C09: 'A to B' is the absolute number of days between the two dates, symmetric in A and B
    #[kani::proof]
    fn date_difference() { date_difference_in(711_858, 748_382) }   // 1950-01-01 .. 2049-12-31
    #[kani::proof]
    fn date_difference_1990_2040() { date_difference_in(735_600, 739_300) }
    fn date_difference_in(lo: i32, hi: i32) {
        let a = any_date_between(lo, hi);
        let b = any_date_between(lo, hi);
        let d1 = slice_date_diff(a, b);
        let d2 = slice_date_diff(b, a);
        assert!(d1 == d2, "OBL:difference_is_symmetric");
        assert!(d1 >= Duration::zero(), "OBL:difference_is_absolute");
        let da = chrono::Datelike::num_days_from_ce(&a) as i64;
        let db = chrono::Datelike::num_days_from_ce(&b) as i64;
        let want = if da > db { da - db } else { db - da };
        assert!(d1 == Duration::days(want), "OBL:difference_is_number_of_days_between");
    }

    // C11: 'T1 to T2' is the absolute difference of the two times
    #[kani::proof]
    fn time_difference() {
        let s1: i64 = kani::any();
        let s2: i64 = kani::any();
        kani::assume(s1 >= 1_700_000_000 && s1 < 1_700_131_072 && s2 >= 1_700_000_000 && s2 < 1_700_131_072);   // a 2^17 s (36-hour) window
        let (a, b) = match (chrono::DateTime::<chrono::Utc>::from_timestamp(s1, 0), chrono::DateTime::<chrono::Utc>::from_timestamp(s2, 0)) {
            (Some(a), Some(b)) => (a.naive_utc(), b.naive_utc()), _ => { kani::assume(false); unreachable!() } };
        let d1 = slice_time_diff(a, b);
        assert!(d1 == slice_time_diff(b, a), "OBL:difference_is_symmetric");
        let want = if s1 > s2 { s1 - s2 } else { s2 - s1 };
        assert!(d1 == Duration::seconds(want), "OBL:difference_is_absolute_seconds_between");
    }
