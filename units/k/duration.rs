    use crate::verif_support::*;
    use crate::compiler::number::NumberItem;
    use crate::types::NumberType;
    use chrono::Timelike;
    use alloc::collections::BTreeMap;

    // C10: minute 60 s, hour 3600 s, day 86400 s, week 7 days, month 30 days, year 365 days
    #[kani::proof]
    fn unit_lengths() {
        assert!(MINUTE == 60, "OBL:minute_is_60_s");
        assert!(HOUR == 3600, "OBL:hour_is_3600_s");
        assert!(DAY == 86400, "OBL:day_is_86400_s");
        assert!(WEEK == 7 * 86400, "OBL:week_is_7_days");
        assert!(MONTH == 30 * 86400, "OBL:month_is_30_days");
        assert!(YEAR == 365 * 86400, "OBL:year_is_365_days");
    }

    fn secs_in_half_range() -> i64 {
        let s: i64 = kani::any();
        kani::assume(s >= -CHRONO_MAX_SECS / 2 && s <= CHRONO_MAX_SECS / 2);
        s
    }

    // C10: durations joined by + add, and - subtracts (signed, exact)
    #[kani::proof]
    fn duration_add_sub() {
        let cfg = empty_config();
        let a = secs_in_half_range();
        let b = secs_in_half_range();
        let sub: bool = kani::any();
        let me = DurationItem(Duration::seconds(a));
        let other = DurationItem(Duration::seconds(b));
        let r = me.calculate(&cfg, true, &other, if sub { OperationType::Sub } else { OperationType::Add });
        assert!(r.is_some(), "OBL:duration_plus_minus_duration_defined");
        let r = r.unwrap();
        let d = r.as_any().downcast_ref::<DurationItem>();
        assert!(d.is_some(), "OBL:result_is_a_duration");
        let want = if sub { a - b } else { a + b };
        kani::cover!(sub && a < b, "COVER:negative_difference");
        assert!(d.unwrap().0.num_seconds() == want, "OBL:seconds_add_or_subtract_exactly");
        assert!(d.unwrap().0 == Duration::seconds(want), "OBL:no_subsecond_residue");
        let m = me.calculate(&cfg, true, &other, OperationType::Mul);
        assert!(m.is_none(), "OBL:duration_times_duration_undefined");
        let q = me.calculate(&cfg, true, &other, OperationType::Div);
        assert!(q.is_none(), "OBL:duration_over_duration_undefined");
    }

    #[kani::proof]
    fn duration_left_of_other_kind_is_none() {
        let cfg = empty_config();
        let me = DurationItem(Duration::seconds(secs_in_half_range()));
        let n = NumberItem(kani::any(), NumberType::Decimal);
        let k: u8 = kani::any();
        kani::assume(k < 4);
        assert!(me.calculate(&cfg, true, &n, op_of(k)).is_none(), "OBL:duration_op_number_undefined");
        assert!(me.calculate(&cfg, false, &n, op_of(k)).is_none(), "OBL:number_op_duration_undefined_from_duration_side");
    }

    // C11: a duration used as a clock offset is |D| mod 24 h, split into h:m:s
    #[kani::proof]
    #[kani::stub(chrono::Utc::now, crate::verif_support::any_now)]
    fn as_time_mod_24h() {
        let d = any_duration();
        let s = d.num_seconds();
        kani::assume(s > -0x1_0000_0000 && s < 0x1_0000_0000);   // |D| < 2^32 s (136 years)
        let t = DurationItem(d).as_time();
        let mag = if s < 0 { -s } else { s };
        kani::cover!(mag > 86400, "COVER:more_than_a_day");
        assert!(t.num_seconds_from_midnight() as i64 == mag % 86400, "OBL:time_of_day_is_magnitude_mod_24h");
        assert!(t.nanosecond() == 0, "OBL:whole_seconds");
    }

    // recorder standing in for duration_formatter
    static mut PARTS: [(i64, u8); 8] = [(0, 0); 8];
    static mut NPARTS: usize = 0;
    fn unit_code(t: &DurationFormatType) -> u8 {
        match t { DurationFormatType::Second => 0, DurationFormatType::Minute => 1, DurationFormatType::Hour => 2, DurationFormatType::Day => 3,
                  DurationFormatType::Week => 4, DurationFormatType::Month => 5, DurationFormatType::Year => 6 }
    }
    fn unit_len(code: u8) -> i64 { match code { 0 => 1, 1 => 60, 2 => 3600, 3 => 86400, 4 => 604800, 5 => 2592000, _ => 31536000 } }
    fn formatter_probe(_format: &JsonFormat, _buffer: &mut String, _replace_str: &str, duration: i64, duration_type: DurationFormatType) {
        unsafe {
            if NPARTS < 8 { PARTS[NPARTS] = (duration, unit_code(&duration_type)); }
            NPARTS += 1;
        }
    }

    // Spec of the greedy decomposition, written as the property states it: take as many whole
    // years as fit, then months, weeks, days, hours, minutes; what is left is seconds.  A unit
    // that does not fit is not printed.  (Verus lemma duration_algebra::greedy_sums proves that
    // the parts of this decomposition sum to the magnitude and each remainder is below its unit.)
    fn expect_part(i: &mut usize, rem: &mut i64, len: i64, unit: u8) {
        if *rem >= len {
            let n = unsafe { NPARTS };
            assert!(*i < n, "OBL:every_fitting_unit_is_printed");
            let (count, u) = unsafe { PARTS[*i] };
            assert!(u == unit, "OBL:parts_in_descending_unit_order");
            assert!(count == *rem / len, "OBL:count_is_whole_units_that_fit");
            *rem = *rem % len;
            *i += 1;
        }
    }

    // C10: a duration is printed as its magnitude decomposed greedily into years, months, weeks,
    // days, hours, minutes and seconds.
    #[kani::proof]
    #[kani::stub(DurationItem::duration_formatter, formatter_probe)]
    fn print_greedy() { print_greedy_up_to(0x3_ffff_ffff) }   // 2^34 s = 544 years
    #[kani::proof]
    #[kani::stub(DurationItem::duration_formatter, formatter_probe)]
    fn print_greedy_below_2_31() { print_greedy_up_to(0x7fff_ffff) }

    fn print_greedy_up_to(max: i64) {
        let mut cfg = empty_config();
        cfg.format.insert("en".to_string(), JsonFormat { duration: Vec::new(), date: BTreeMap::new(), language: String::new() });
        let session = Session::new();
        let d = any_duration();
        let s = d.num_seconds();
        let mag = if s < 0 { -s } else { s };
        kani::assume(mag <= max);
        let _ = DurationItem(d).print(&cfg, &session);
        let n = unsafe { NPARTS };
        let mut i: usize = 0;
        let mut rem = mag;
        expect_part(&mut i, &mut rem, 31536000, 6);
        expect_part(&mut i, &mut rem, 2592000, 5);
        expect_part(&mut i, &mut rem, 604800, 4);
        expect_part(&mut i, &mut rem, 86400, 3);
        expect_part(&mut i, &mut rem, 3600, 2);
        expect_part(&mut i, &mut rem, 60, 1);
        if rem > 0 {
            assert!(i < n, "OBL:leftover_seconds_are_printed");
            let (count, u) = unsafe { PARTS[i] };
            assert!(u == 0 && count == rem, "OBL:last_part_is_the_leftover_seconds");
            i += 1;
        }
        assert!(n == i, "OBL:nothing_else_is_printed");
        core::mem::forget(cfg);
    }

    // the number a duration contributes in mixed arithmetic (get_number): leading unit count
    #[kani::proof]
    fn high_number() {
        let d = any_duration();
        let s = d.num_seconds();
        let mag = if s < 0 { -s } else { s };
        let n = DurationItem(d).get_high_duration_number();
        assert!(n >= 0 && n <= mag, "OBL:high_number_within_magnitude");
        if mag < 60 { assert!(n == mag, "OBL:seconds_below_a_minute"); }
    }

    #[kani::proof]
    fn canary_duration() {
        let cfg = empty_config();
        let a = secs_in_half_range();
        let b = secs_in_half_range();
        let r = DurationItem(Duration::seconds(a)).calculate(&cfg, true, &DurationItem(Duration::seconds(b)), OperationType::Sub).unwrap();
        let d = r.as_any().downcast_ref::<DurationItem>().unwrap();
        assert!(d.0.num_seconds() == b - a, "OBL:canary_false_clause");
    }
