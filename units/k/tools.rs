    use crate::verif_support::*;

    // C02: "division by zero yields 0"; the contract itself is attached in place to
    // the real `do_divition` (see tools.toml [[contract]]) and proved here for all 2^128 pairs.
    #[kani::proof_for_contract(do_divition)]
    fn do_divition_contract() {
        let l: f64 = kani::any();
        let r: f64 = kani::any();
        let _ = do_divition(l, r);
    }

    // corollaries stated directly on the real body (not on the contract)
    #[kani::proof]
    fn do_divition_zero() {
        let l: f64 = kani::any();
        let r: f64 = kani::any();
        let q = do_divition(l, r);
        kani::cover!(r == 0.0 && l != 0.0, "COVER:zero_divisor");
        kani::cover!(r != 0.0 && (l / r).is_finite() && l / r != 0.0, "COVER:ordinary_quotient");
        if r == 0.0 {
            assert!(q.to_bits() == 0.0f64.to_bits(), "OBL:div_by_zero_is_plus_zero");
        }
        assert!(q.is_finite(), "OBL:result_always_finite");
        if (l / r).is_finite() {
            assert!(q.to_bits() == (l / r).to_bits(), "OBL:finite_quotient_exact");
        }
    }

    // vacuity canary: a false clause about the same function must be refuted
    #[kani::proof]
    fn canary_do_divition() {
        let l: f64 = kani::any();
        let r: f64 = kani::any();
        assert!(do_divition(l, r) != 0.0, "OBL:canary_false_clause");
    }

    // driver self-test: Rust's own overflow assertion must stay an obligation when CBMC's
    // float/NaN instrumentation is switched off (--no-overflow-checks)
    #[kani::proof]
    fn canary_i64_overflow() {
        let l: i64 = kani::any();
        let r = l + 1;
        assert!(r > l, "OBL:canary_false_clause");
    }
