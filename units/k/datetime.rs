    use crate::verif_support::*;

    fn result_dt(r: Option<Rc<dyn DataItem>>) -> Option<NaiveDateTime> {
        let out = match &r { Some(i) => i.as_any().downcast_ref::<DateTimeItem>().map(|d| d.0), None => None };
        core::mem::forget(r);
        out
    }

    // C01: no panic for ANY instant of years 1..9999 and ANY duration (result value not examined)
    #[kani::proof]
    fn datetime_never_panics() {
        let cfg = empty_config();
        let days: i32 = kani::any();
        kani::assume(days >= 1 && days <= 3_652_059);
        let secs: u32 = kani::any();
        kani::assume(secs < 86400);
        let t = match chrono::NaiveDate::from_num_days_from_ce_opt(days) { Some(d) => match d.and_hms_opt(secs / 3600, (secs / 60) % 60, secs % 60) { Some(t) => t, None => { kani::assume(false); unreachable!() } }, None => { kani::assume(false); unreachable!() } };
        let d = any_duration();
        let sub: bool = kani::any();
        let r = DateTimeItem(t, TimeOffset { name: String::new(), offset: 0 }).calculate(&cfg, true, &DurationItem(d), if sub { OperationType::Sub } else { OperationType::Add });
        let _ = result_dt(r);
    }

    // C01/C14: date-time +/- duration moves the instant by exactly that many seconds, or is an
    // error value when the result leaves the calendar - never a panic, for any duration chrono holds
    #[kani::proof]
    fn datetime_plus_minus_duration() { dt_plus_minus(1_700_000_000, 1_767_108_864, 10_000_000) }   // a 2^26 s (2-year) window, durations up to 10^7 s
    #[kani::proof]
    fn datetime_plus_minus_duration_window() { dt_plus_minus(1_700_000_000, 1_700_262_144, 1_000_000) }
    fn dt_plus_minus(lo: i64, hi: i64, dmax: i64) {
        let cfg = empty_config();
        let secs: i64 = kani::any();
        kani::assume(secs >= lo && secs < hi);
        let t = match chrono::DateTime::<chrono::Utc>::from_timestamp(secs, 0) { Some(t) => t.naive_utc(), None => { kani::assume(false); unreachable!() } };
        let d = any_duration();
        kani::assume(d.num_seconds() >= -dmax && d.num_seconds() <= dmax);
        let sub: bool = kani::any();
        let r = DateTimeItem(t, TimeOffset { name: String::new(), offset: 0 }).calculate(&cfg, true, &DurationItem(d), if sub { OperationType::Sub } else { OperationType::Add });
        if let Some(g) = result_dt(r) {
            let moved = if sub { -d.num_seconds() } else { d.num_seconds() };
            assert!(g.and_utc().timestamp() == secs + moved, "OBL:instant_moves_by_exactly_the_duration");
        }
    }
