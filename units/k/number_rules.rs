    use crate::verif_support::*;

    fn slice_on(number: f64, percent: f64) -> f64 { /*@SLICE number_on.calculated_number*/ }
    fn slice_of(number: f64, percent: f64) -> f64 { /*@SLICE number_of.calculated_number*/ }
    fn slice_off(number: f64, percent: f64) -> f64 { /*@SLICE number_off.calculated_number*/ }

    // C05: 'p% on X' = X + div(X*p,100); 'p% of X' = div(X*p,100); 'p% off X' = X - div(X*p,100)
    // (V-real lemma percent_algebra: these equal X*(1+p/100), X*p/100, X*(1-p/100)).
    #[kani::proof]
    #[kani::stub(crate::tools::do_divition, crate::verif_support::div_probe)]
    fn percent_on() {
        let x: f64 = kani::any();
        let p: f64 = kani::any();
        let got = slice_on(x, p);
        if div_calls() == 0 {
            assert!(same_f64(got, x + spec_div(x * p, 100.0)), "OBL:on_is_x_plus_share");
        } else {
            assert!(div_calls() == 1 && div_was(0, x * p, 100.0), "OBL:on_share_is_xp_over_100");
            assert!(same_f64(got, x + div_call(0).2), "OBL:on_is_x_plus_share");
        }
    }
    #[kani::proof]
    #[kani::stub(crate::tools::do_divition, crate::verif_support::div_probe)]
    fn percent_of() {
        let x: f64 = kani::any();
        let p: f64 = kani::any();
        let got = slice_of(x, p);
        if div_calls() == 0 {
            assert!(same_f64(got, spec_div(x * p, 100.0)), "OBL:of_is_share");
        } else {
            assert!(div_calls() == 1 && div_was(0, x * p, 100.0), "OBL:of_share_is_xp_over_100");
            assert!(same_f64(got, div_call(0).2), "OBL:of_is_share");
        }
    }
    #[kani::proof]
    #[kani::stub(crate::tools::do_divition, crate::verif_support::div_probe)]
    fn percent_off() {
        let x: f64 = kani::any();
        let p: f64 = kani::any();
        let got = slice_off(x, p);
        if div_calls() == 0 {
            assert!(same_f64(got, x - spec_div(x * p, 100.0)), "OBL:off_is_x_minus_share");
        } else {
            assert!(div_calls() == 1 && div_was(0, x * p, 100.0), "OBL:off_share_is_xp_over_100");
            assert!(same_f64(got, x - div_call(0).2), "OBL:off_is_x_minus_share");
        }
    }

    // C13: 'N to hex|octal|binary|decimal' rounds N to the nearest integer ...
    fn get_number(_: &str, fields: &Option<f64>) -> Option<f64> { *fields }
    fn slice_round(fields: &Option<f64>) -> core::result::Result<f64, String> {
        let number = /*@SLICE number_type_convert.round*/;
        Ok(number)
    }
    #[kani::proof]
    fn type_convert_round() {
        let x: f64 = kani::any();
        kani::assume(x.is_finite());
        let r = slice_round(&Some(x));
        assert!(r.is_ok(), "OBL:round_defined");
        let r = r.unwrap();
        // nearest integer, ties away from zero (f64::round)
        assert!(r == r.trunc() , "OBL:result_is_integral");
        assert!((r - x).abs() <= 0.5, "OBL:result_is_nearest");
        kani::cover!(x == 2.5, "COVER:tie");
        if x == 2.5 { assert!(r == 3.0, "OBL:tie_away_from_zero"); }
        assert!(slice_round(&None).is_err(), "OBL:missing_number_is_error");
    }

    // ... and selects the base by name
    fn slice_type(number_type: String) -> core::result::Result<NumberType, String> {
        let number_type = /*@SLICE number_type_convert.type*/;
        Ok(number_type)
    }
    #[kani::proof]
    #[kani::unwind(12)]
    fn type_convert_names() {
        assert!(slice_type("hex".to_string()) == Ok(NumberType::Hexadecimal), "OBL:hex");
        assert!(slice_type("hexadecimal".to_string()) == Ok(NumberType::Hexadecimal), "OBL:hexadecimal");
        assert!(slice_type("octal".to_string()) == Ok(NumberType::Octal), "OBL:octal");
        assert!(slice_type("binary".to_string()) == Ok(NumberType::Binary), "OBL:binary");
        assert!(slice_type("decimal".to_string()) == Ok(NumberType::Decimal), "OBL:decimal");
        assert!(slice_type("bin".to_string()).is_err(), "OBL:other_is_error");
    }
