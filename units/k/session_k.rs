    // C04/C01: walking a session the way execute_session does (has_value, then next_line until None)
    // visits every remaining line exactly once, in order, and ends on the last line
    #[kani::proof]
    fn cursor_walk_visits_every_remaining_line_once() {
        let n: usize = kani::any();
        let p: usize = kani::any();
        kani::assume(n <= 3 && p <= 4);
        let mut parts: Vec<String> = Vec::with_capacity(4);
        if n > 0 { parts.push(String::new()); }
        if n > 1 { parts.push(String::new()); }
        if n > 2 { parts.push(String::new()); }
        let s = Session { text: String::new(), text_parts: parts, language: String::new(), position: Cell::new(p), variables: RefCell::new(BTreeMap::new()) };
        assert!(s.line_count() == n, "OBL:line_count_is_number_of_parts");
        assert!(s.has_value() == (p < n), "OBL:has_value_iff_cursor_in_range");
        let mut visited = 0usize;
        if s.has_value() {
            let mut step = 0;
            while step < 4 {
                assert!(s.position.get() == p + visited, "OBL:lines_are_visited_in_order");
                let _ = s.current_line();
                visited += 1;
                if s.next_line().is_none() { break; }
                step += 1;
            }
            assert!(visited == n - p, "OBL:every_remaining_line_is_visited_exactly_once");
            assert!(s.position.get() == n - 1, "OBL:walk_ends_on_the_last_line");
        }
        core::mem::forget(s);
    }
