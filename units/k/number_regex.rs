    use crate::verif_support::*;

    struct Cap<'a>(&'a str);
    impl<'a> Cap<'a> { fn as_str(&self) -> &str { self.0 } }

    // C02: the magnitude suffixes k, M, G, T, P, Z, Y scale a literal by successive powers of 1000
    fn slice_notation(notation: Cap) -> f64 { /*@SLICE notation.table*/ }
    #[kani::proof]
    fn suffix_table() {
        assert!(slice_notation(Cap("k")) == 1e3 && slice_notation(Cap("K")) == 1e3, "OBL:k_is_1000");
        assert!(slice_notation(Cap("M")) == 1e6, "OBL:M_is_1000_squared");
        assert!(slice_notation(Cap("G")) == 1e9, "OBL:G_is_1000_cubed");
        assert!(slice_notation(Cap("T")) == 1e12, "OBL:T_is_1000_pow_4");
        assert!(slice_notation(Cap("P")) == 1e15, "OBL:P_is_1000_pow_5");
        assert!(slice_notation(Cap("Z")) == 1e18, "OBL:Z_is_1000_pow_6");
        assert!(slice_notation(Cap("Y")) == 1e21, "OBL:Y_is_1000_pow_7");
        let b: u8 = kani::any();
        kani::assume(b.is_ascii_alphabetic() && !matches!(b, b'k' | b'K' | b'M' | b'G' | b'T' | b'P' | b'Z' | b'Y'));
        let buf = [b];
        let s = unsafe { core::str::from_utf8_unchecked(&buf) };
        assert!(slice_notation(Cap(s)) == 1.0, "OBL:any_other_letter_does_not_scale");
    }

    // the real code `continue`s to the next regex capture on an unreadable literal: the slice sits in a one-iteration loop
    fn slice_binary(binary: Cap) -> Option<f64> { for _capture in 0..1 { let number = /*@SLICE radix.binary*/; return Some(number); } None }
    fn slice_hex(hex: Cap) -> Option<f64> { for _capture in 0..1 { let number = /*@SLICE radix.hex*/; return Some(number); } None }
    fn slice_octal(octal: Cap) -> Option<f64> { for _capture in 0..1 { let number = /*@SLICE radix.octal*/; return Some(number); } None }

    fn digit_val(b: u8) -> Option<u32> {
        match b { b'0'..=b'9' => Some((b - b'0') as u32), b'a'..=b'f' => Some((b - b'a') as u32 + 10), b'A'..=b'F' => Some((b - b'A') as u32 + 10), _ => None }
    }

    // C13: 0x.., 0o.., 0b.. denote the integer written in base 16, 8, 2
    #[kani::proof]
    fn radix_values() {
        let len: usize = kani::any();
        kani::assume(len >= 1 && len <= 4);
        let buf: [u8; 4] = [kani::any(), kani::any(), kani::any(), kani::any()];
        let base: u8 = kani::any();
        kani::assume(base == 2 || base == 8 || base == 16);
        let mut want: i64 = 0;
        let mut i = 0;
        while i < 4 {
            if i < len {
                let v = digit_val(buf[i]);
                kani::assume(v.is_some() && v.unwrap() < base as u32);
                want = want * base as i64 + v.unwrap() as i64;
            }
            i += 1;
        }
        let s = unsafe { core::str::from_utf8_unchecked(&buf[..len]) };
        let got = match base { 2 => slice_binary(Cap(s)), 8 => slice_octal(Cap(s)), _ => slice_hex(Cap(s)) };
        assert!(got.is_some(), "OBL:digit_string_is_read");
        assert!(got.unwrap() == want as f64, "OBL:value_is_positional_sum_in_that_base");
    }

    // C01: a literal that does not fit 64 bits is skipped, not a panic (17 hex digits)
    #[kani::proof]
    fn radix_overflow_is_skipped() {
        assert!(slice_hex(Cap("FFFFFFFFFFFFFFFFF")).is_none(), "OBL:too_long_hex_literal_is_skipped");
        assert!(slice_hex(Cap("7FFFFFFFFFFFFFFF")) == Some(i64::MAX as f64), "OBL:largest_hex_literal_is_read");
    }
