    use crate::verif_support::*;
    use crate::compiler::percent::PercentItem;
    use crate::compiler::duration::DurationItem;

    // C06: converting an amount from currency A to currency B is amount / rate(A) * rate(B)
    // (V-real lemma algebra::convert: == amount * rate(B)/rate(A), identity when A == B).
    // K-slice of the WHOLE BODY of convert_currency, compiled against stand-ins: a money value is
    // (amount, currency record) like the real MoneyItem, a currency record has a code and a symbol,
    // the rate table answers by currency identity (the real BTreeMap<Rc<CurrencyInfo>, f64> costs
    // > 8 GB under CBMC).  `self` is the TARGET currency, `left` the money being converted.
    // (code and symbol are small integers here: comparing them is all code could do with them)
    struct CurInfo { id: u8, code: u8, symbol: u8 }
    struct RateTable { rates: [Option<f64>; 2] }
    impl RateTable { fn get(&self, c: &Rc<CurInfo>) -> Option<&f64> { self.rates[c.id as usize].as_ref() } }
    struct Cfg { currency_rate: RateTable }
    struct M(f64, Rc<CurInfo>);
    impl M {
        fn get_currency(&self) -> Rc<CurInfo> { self.1.clone() }
        fn get_price(&self) -> f64 { self.0 }
        fn convert_currency(&self, config: &Cfg, left: &M) -> f64 {
            /*@SLICE convert_currency.body*/
        }
    }

    #[kani::proof]
    #[kani::stub(crate::tools::do_divition, crate::verif_support::div_probe)]
    #[kani::unwind(4)]
    fn convert_currency_formula() {
        let amount: f64 = kani::any();
        let r_left: f64 = kani::any();
        let r_self: f64 = kani::any();
        let has_left: bool = kani::any();
        let has_self: bool = kani::any();
        // two different currencies which may or may not share their display symbol (usd/aud both use $)
        let same_symbol: bool = kani::any();
        let source = Rc::new(CurInfo { id: 0, code: 10, symbol: 1 });
        let target = Rc::new(CurInfo { id: 1, code: 20, symbol: if same_symbol { 1 } else { 2 } });
        let cfg = Cfg { currency_rate: RateTable { rates: [if has_left { Some(r_left) } else { None }, if has_self { Some(r_self) } else { None }] } };
        let me = M(kani::any(), target.clone());
        let left = M(amount, source.clone());
        let got = me.convert_currency(&cfg, &left);
        kani::cover!(same_symbol && has_left && has_self, "COVER:two_currencies_sharing_a_symbol");
        if !has_self {
            assert!(got.to_bits() == 0.0f64.to_bits(), "OBL:unknown_target_rate_gives_zero");
        } else if !has_left {
            assert!(same_f64(got, 0.0 * r_self), "OBL:unknown_source_rate_gives_zero_times_rate");
        } else if div_calls() == 0 {
            assert!(same_f64(got, spec_div(amount, r_left) * r_self), "OBL:amount_over_source_rate_times_target_rate");
        } else {
            assert!(div_calls() == 1 && div_was(0, amount, r_left), "OBL:divides_amount_by_source_rate");
            assert!(same_f64(got, div_call(0).2 * r_self), "OBL:amount_over_source_rate_times_target_rate");
        }
        core::mem::forget(cfg); core::mem::forget(me); core::mem::forget(left); core::mem::forget(source); core::mem::forget(target);
    }

    // recording stand-in for the private callee convert_currency
    static mut CONV_CALLS: usize = 0;
    static mut CONV_SELF_CODE_IS_LEFT: bool = false;
    static mut CONV_ARG_BITS: u64 = 0;
    static mut CONV_ARG_IS_RIGHT: bool = false;
    static mut CONV_OUT: u64 = 0;
    static mut EXPECT_LEFT: *const CurrencyInfo = core::ptr::null();
    static mut EXPECT_RIGHT: *const CurrencyInfo = core::ptr::null();
    fn conv_probe(me: &MoneyItem, _config: &SmartCalcConfig, left: &MoneyItem) -> f64 {
        let c: f64 = kani::any();
        unsafe {
            CONV_CALLS += 1;
            CONV_SELF_CODE_IS_LEFT = Rc::as_ptr(&me.1) == EXPECT_LEFT;
            CONV_ARG_IS_RIGHT = Rc::as_ptr(&left.1) == EXPECT_RIGHT;
            CONV_ARG_BITS = left.0.to_bits();
            CONV_OUT = c.to_bits();
        }
        c
    }

    // C06: money (+|-) money converts the RIGHT operand into the LEFT operand's currency and keeps
    // the left currency; money / money is the plain ratio (a NumberItem) of the two amounts
    // expressed in one currency; money * money is scaled money in the left currency (as coded).
    #[kani::proof]
    #[kani::stub(MoneyItem::convert_currency, conv_probe)]
    #[kani::stub(crate::tools::do_divition, crate::verif_support::div_probe)]
    fn money_op_money_add() { money_op_money(0) }
    #[kani::proof]
    #[kani::stub(MoneyItem::convert_currency, conv_probe)]
    #[kani::stub(crate::tools::do_divition, crate::verif_support::div_probe)]
    fn money_op_money_div() { money_op_money(1) }
    #[kani::proof]
    #[kani::stub(MoneyItem::convert_currency, conv_probe)]
    #[kani::stub(crate::tools::do_divition, crate::verif_support::div_probe)]
    fn money_op_money_mul() { money_op_money(2) }
    #[kani::proof]
    #[kani::stub(MoneyItem::convert_currency, conv_probe)]
    #[kani::stub(crate::tools::do_divition, crate::verif_support::div_probe)]
    fn money_op_money_sub() { money_op_money(3) }

    fn money_op_money(k: u8) {
        let cfg = empty_config();
        let usd = currency_anon();
        let eur = currency_anon();
        unsafe { EXPECT_LEFT = Rc::as_ptr(&usd); EXPECT_RIGHT = Rc::as_ptr(&eur); }
        let a: f64 = kani::any();
        let b: f64 = kani::any();
        let left = MoneyItem(a, usd.clone());
        let right = MoneyItem(b, eur.clone());
        let r = left.calculate(&cfg, true, &right, op_of(k));
        assert!(r.is_some(), "OBL:money_op_money_defined");
        let r = r.unwrap();
        unsafe {
            assert!(CONV_CALLS == 1 && CONV_SELF_CODE_IS_LEFT && CONV_ARG_IS_RIGHT && CONV_ARG_BITS == b.to_bits(),
                    "OBL:right_operand_is_converted_into_left_currency");
        }
        let c = unsafe { f64::from_bits(CONV_OUT) };
        if k == 1 {
            let n = r.as_any().downcast_ref::<NumberItem>();
            assert!(n.is_some(), "OBL:money_over_money_is_a_plain_number");
            assert!(div_calls() == 1 && div_was(0, a, c), "OBL:ratio_divides_left_amount_by_converted_right");
            assert!(same_f64(n.unwrap().0, div_call(0).2), "OBL:ratio_value");
        } else {
            let m = r.as_any().downcast_ref::<MoneyItem>();
            assert!(m.is_some(), "OBL:result_is_money");
            let m = m.unwrap();
            assert!(Rc::ptr_eq(&m.1, &usd), "OBL:keeps_left_currency");
            let want = match k { 0 => a + c, 2 => a * c, _ => a - c };
            assert!(same_f64(m.0, want), "OBL:left_amount_op_converted_right");
        }
    }

    // C06: multiplying or dividing money by a number scales the amount and keeps the currency
    // (+ and - with a plain number likewise act on the amount)
    #[kani::proof]
    #[kani::stub(crate::tools::do_divition, crate::verif_support::div_probe)]
    fn money_op_number_add() { money_op_number(0) }
    #[kani::proof]
    #[kani::stub(crate::tools::do_divition, crate::verif_support::div_probe)]
    fn money_op_number_div() { money_op_number(1) }
    #[kani::proof]
    #[kani::stub(crate::tools::do_divition, crate::verif_support::div_probe)]
    fn money_op_number_mul() { money_op_number(2) }
    #[kani::proof]
    #[kani::stub(crate::tools::do_divition, crate::verif_support::div_probe)]
    fn money_op_number_sub() { money_op_number(3) }

    fn money_op_number(k: u8) {
        let cfg = empty_config();
        let usd = currency_anon();
        let a: f64 = kani::any();
        let b: f64 = kani::any();
        let r = MoneyItem(a, usd.clone()).calculate(&cfg, true, &NumberItem(b, NumberType::Decimal), op_of(k));
        assert!(r.is_some(), "OBL:money_op_number_defined");
        let r = r.unwrap();
        let m = r.as_any().downcast_ref::<MoneyItem>();
        assert!(m.is_some(), "OBL:result_is_money");
        let m = m.unwrap();
        assert!(Rc::ptr_eq(&m.1, &usd), "OBL:keeps_currency");
        if k == 1 && div_calls() > 0 {
            assert!(div_calls() == 1 && div_was(0, a, b), "OBL:divides_amount_by_number");
            assert!(same_f64(m.0, div_call(0).2), "OBL:scaled_amount");
        } else {
            assert!(same_f64(m.0, spec_binop(k, a, b)), "OBL:scaled_amount");
        }
    }

    // C05: money (+|-) p% : the share is asked of the money operand itself, the result is money in
    // the same currency.  (ShareProbe: see number.rs - an operand that reports "PERCENT" and answers
    // get_number with an arbitrary recorded value.)
    #[derive(Debug)]
    struct ShareProbe(f64, core::cell::Cell<u64>, core::cell::Cell<u32>);
    impl DataItem for ShareProbe {
        fn unary(&self, _: UnaryType) -> Rc<dyn DataItem> { Rc::new(NumberItem(0.0, NumberType::Decimal)) }
        fn is_same(&self, _: &dyn Any) -> bool { false }
        fn as_token_type(&self) -> TokenType { TokenType::Percent(0.0) }
        fn as_any(&self) -> &dyn Any { self }
        fn get_number(&self, other: &dyn DataItem) -> f64 { self.1.set(other.get_underlying_number().to_bits()); self.2.set(self.2.get() + 1); self.0 }
        fn get_underlying_number(&self) -> f64 { self.0 }
        fn type_name(&self) -> &'static str { "PERCENT" }
        fn type_id(&self) -> TypeId { TypeId::of::<PercentItem>() }
        fn calculate(&self, _: &SmartCalcConfig, _: bool, _: &dyn DataItem, _: OperationType) -> Option<Rc<dyn DataItem>> { None }
        fn print(&self, _: &SmartCalcConfig, _: &Session) -> String { String::new() }
    }
    #[kani::proof]
    fn money_plus_percent() { money_op_percent(0) }
    #[kani::proof]
    fn money_minus_percent() { money_op_percent(3) }

    fn money_op_percent(k: u8) {
        let cfg = empty_config();
        let usd = currency_anon();
        let a: f64 = kani::any();
        let s: f64 = kani::any();
        let other = ShareProbe(s, core::cell::Cell::new(0), core::cell::Cell::new(0));
        let r = MoneyItem(a, usd.clone()).calculate(&cfg, true, &other, op_of(k));
        assert!(r.is_some(), "OBL:money_op_percent_defined");
        let r = r.unwrap();
        let m = r.as_any().downcast_ref::<MoneyItem>();
        assert!(m.is_some(), "OBL:result_is_money");
        let m = m.unwrap();
        assert!(Rc::ptr_eq(&m.1, &usd), "OBL:same_currency");
        assert!(other.2.get() == 1 && other.1.get() == a.to_bits(), "OBL:share_is_taken_of_the_amount_itself");
        let want = if k == 0 { a + s } else { a - s };
        assert!(same_f64(m.0, want), "OBL:amount_plus_minus_share");
    }

    #[kani::proof]
    fn money_unary() {
        let usd = currency_anon();
        let a: f64 = kani::any();
        let r = MoneyItem(a, usd.clone()).unary(UnaryType::Minus);
        let m = r.as_any().downcast_ref::<MoneyItem>().unwrap();
        assert!(same_f64(m.0, -a), "OBL:minus_negates_amount");
        assert!(Rc::ptr_eq(&m.1, &usd), "OBL:minus_keeps_currency");
    }
