    struct Cap<'a>(&'a str);
    impl<'a> Cap<'a> { fn as_str(&self) -> &str { self.0 } }
    fn slice_offset(tz: Cap, hour: i32, minute: i32, timezone_type: i32) -> Option<(String, i32)> { /*@SLICE parse_timezone.offset*/ }
    fn slice_sign(timezone_type: Cap) -> i32 { /*@SLICE parse_timezone.sign*/ }

    // C11: 'GMT+h[:mm]' / 'GMT-h[:mm]' denote the offset +(60h+m) / -(60h+m) minutes
    #[kani::proof]
    fn gmt_offset_minutes() {
        let h: i32 = kani::any();
        let m: i32 = kani::any();
        kani::assume(h >= 0 && h <= 99 && m >= 0 && m <= 59);   // what two-digit captures can hold
        let minus: bool = kani::any();
        let sign = if minus { slice_sign(Cap("-")) } else { slice_sign(Cap("+")) };
        assert!(sign == if minus { -1 } else { 1 }, "OBL:minus_sign_negates_plus_does_not");
        let r = slice_offset(Cap("G"), h, m, sign);
        assert!(r.is_some(), "OBL:gmt_form_yields_a_zone");
        let off = r.as_ref().unwrap().1;
        kani::cover!(minus && m > 0, "COVER:negative_offset_with_minutes");
        assert!(off == if minus { -(60 * h + m) } else { 60 * h + m }, "OBL:offset_is_signed_hours_and_minutes");
        core::mem::forget(r);
    }
