    use crate::verif_support::*;
    use chrono::{Datelike, TimeZone};

    static mut NOW_SECS: i64 = 0;
    fn fixed_now() -> chrono::DateTime<Utc> {
        match chrono::DateTime::<Utc>::from_timestamp(unsafe { NOW_SECS }, 0) { Some(t) => t, None => { kani::assume(false); unreachable!() } }
    }
    #[allow(deprecated)]
    fn fixed_today() -> chrono::Date<Utc> { Utc.from_utc_date(&fixed_now().naive_utc().date()) }

    fn slice_constant(config: &SmartCalcConfig, constant: &ConstantType) -> Option<TokenType> {
        let token = /*@SLICE constants.table*/;
        token
    }
    fn date_of(t: &Option<TokenType>) -> Option<chrono::NaiveDate> { match t { Some(TokenType::Date(d, _)) => Some(*d), _ => None } }

    // C09: today, tomorrow and yesterday are consecutive calendar days (for one reading of the clock)
    #[kani::proof]
    #[kani::stub(chrono::Utc::today, fixed_today)]
    #[kani::stub(chrono::Utc::now, fixed_now)]
    fn today_tomorrow_yesterday_are_consecutive() {
        let secs: i64 = kani::any();
        kani::assume(secs >= 1_703_000_000 && secs < 1_705_000_000);   // a 23-day window across a year boundary (Dec 2023 .. Jan 2024)
        unsafe { NOW_SECS = secs; }
        let mut cfg = empty_config();
        cfg.timezone_offset = kani::any();      // whatever default zone is configured
        let today = slice_constant(&cfg, &ConstantType::Today);
        let tomorrow = slice_constant(&cfg, &ConstantType::Tomorrow);
        let yesterday = slice_constant(&cfg, &ConstantType::Yesterday);
        let (t, m, y) = (date_of(&today), date_of(&tomorrow), date_of(&yesterday));
        assert!(t.is_some() && m.is_some() && y.is_some(), "OBL:the_three_words_denote_dates");
        assert!(m.unwrap().num_days_from_ce() == t.unwrap().num_days_from_ce() + 1, "OBL:tomorrow_is_the_day_after_today");
        assert!(y.unwrap().num_days_from_ce() == t.unwrap().num_days_from_ce() - 1, "OBL:yesterday_is_the_day_before_today");
        assert!(t.unwrap() == fixed_now().naive_utc().date(), "OBL:today_is_the_current_utc_date");
        let other = slice_constant(&cfg, &ConstantType::Week);
        assert!(other.is_none(), "OBL:unit_words_are_not_date_constants");
        core::mem::forget(today); core::mem::forget(tomorrow); core::mem::forget(yesterday); core::mem::forget(other); core::mem::forget(cfg);
    }
