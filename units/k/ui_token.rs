    use alloc::string::String;

    #[derive(Clone, Copy)]
    struct Span { s: usize, e: usize }
    impl Span { fn start(&self) -> usize { self.s } fn end(&self) -> usize { self.e } }
    impl UiTokenCollection {
        fn verif_add(&mut self, capture: Option<Span>, token_type: UiTokenType) {
            /*@SLICE add_from_regex_match.body*/
        }
    }

    // A symbolic line of n <= 3 characters given by its representation: the byte length of each
    // character (1..3).  The collection is built directly from the byte -> character map such a
    // line has (private fields are visible to this child module); that generate_char_map
    // produces exactly this map from a String is checked on concrete lines in char_map_of_concrete_lines.
    fn any_collection() -> (UiTokenCollection, usize, [usize; 4]) {
        let n: usize = kani::any();
        kani::assume(n <= 3);
        let l0: usize = kani::any(); let l1: usize = kani::any(); let l2: usize = kani::any();
        kani::assume(l0 >= 1 && l0 <= 3 && l1 >= 1 && l1 <= 3 && l2 >= 1 && l2 <= 3);
        let b1 = if n > 0 { l0 } else { 0 };
        let b2 = if n > 1 { b1 + l1 } else { b1 };
        let b3 = if n > 2 { b2 + l2 } else { b2 };
        // entry for byte x: the index of the character that contains it
        let e = |x: usize| -> usize { (x >= b1) as usize + (x >= b2) as usize };
        let mut map: Vec<usize> = alloc::vec![e(0), e(1), e(2), e(3), e(4), e(5), e(6), e(7), e(8)];
        map.truncate(b3);
        (UiTokenCollection { tokens: Vec::new(), char_sizes: map }, n, [0, b1, b2, b3])
    }

    // generate_char_map on concrete lines mixing 1-, 2- and 3-byte characters
    #[kani::proof]
    fn char_map_of_concrete_lines() {
        // 1-, 2-, 3- and 4-byte characters: a, e-acute, euro sign, an emoji, b
        let c = UiTokenCollection::new(String::from("a\u{e9}\u{20ac}\u{1F600}b"));
        assert!(c.char_sizes.len() == 11, "OBL:one_map_entry_per_byte");
        assert!(c.char_sizes[0] == 0 && c.char_sizes[1] == 1 && c.char_sizes[2] == 1 && c.char_sizes[3] == 2
             && c.char_sizes[4] == 2 && c.char_sizes[5] == 2 && c.char_sizes[6] == 3 && c.char_sizes[7] == 3
             && c.char_sizes[8] == 3 && c.char_sizes[9] == 3 && c.char_sizes[10] == 4, "OBL:every_byte_maps_to_its_character_index");
        assert!(c.get_position(11) == 5 && c.get_position(10) == 4 && c.get_position(6) == 3, "OBL:positions_after_a_four_byte_character");
        let e = UiTokenCollection::new(String::new());
        assert!(e.char_sizes.len() == 0, "OBL:empty_line_has_empty_map");
    }

    // C17: offsets are character (not byte) positions
    #[kani::proof]
    fn char_map_and_positions() {
        let (c, n, bounds) = any_collection();
        let i: usize = kani::any();
        kani::assume(i <= n);
        // every character boundary (including the end of the line) translates to its character index
        assert!(c.get_position(bounds[i]) == i, "OBL:boundary_byte_offset_translates_to_character_index");
        kani::cover!(i == n && bounds[n] > n, "COVER:end_of_a_line_with_multibyte_characters");
    }

    fn well_formed(c: &UiTokenCollection, n: usize) -> bool {
        let t = &c.tokens;
        let mut ok = true;
        let mut i = 0;
        while i < 2 {
            if i < t.len() {
                ok = ok && t[i].start < t[i].end && t[i].end <= n;
                let mut j = 0;
                while j < 2 {
                    if j < t.len() && j != i {
                        ok = ok && (t[i].end <= t[j].start || t[j].end <= t[i].start);
                    }
                    j += 1;
                }
            }
            i += 1;
        }
        ok
    }

    // C17: a token covers exactly the characters of its match (first token of a line)
    #[kani::proof]
    fn first_token_covers_its_characters() {
        let (mut c, n, bounds) = any_collection();
        c.tokens = Vec::with_capacity(4);
        let a1: usize = kani::any(); let b1: usize = kani::any();
        kani::assume(a1 < b1 && b1 <= n);
        c.verif_add(Some(Span { s: bounds[a1], e: bounds[b1] }), UiTokenType::Number);
        assert!(c.tokens.len() == 1, "OBL:first_match_is_recorded");
        assert!(c.tokens[0].start == a1 && c.tokens[0].end == b1, "OBL:token_covers_exactly_its_characters");
        kani::cover!(b1 == n && bounds[n] > n, "COVER:token_ending_at_the_end_of_a_multibyte_line");
    }

    // C17: 0 <= start < end <= length of the line in characters, tokens never overlap; a match that
    // overlaps nothing is never dropped, an overlapping / empty / absent one adds nothing.
    // Inductive step from an arbitrary well-formed one-token collection.
    #[kani::proof]
    fn tokens_are_wellformed_char_spans() {
        let (mut c, n, bounds) = any_collection();
        let a1: usize = kani::any(); let b1: usize = kani::any();
        let a2: usize = kani::any(); let b2: usize = kani::any();
        kani::assume(a1 < b1 && b1 <= n && a2 <= b2 && b2 <= n);
        c.tokens = Vec::with_capacity(4);
        c.tokens.push(UiToken { start: a1, end: b1, ui_type: UiTokenType::Number });
        let absent: bool = kani::any();
        c.verif_add(if absent { None } else { Some(Span { s: bounds[a2], e: bounds[b2] }) }, UiTokenType::Operator);
        let disjoint = b1 <= a2 || b2 <= a1;
        kani::cover!(!absent && disjoint && a2 < b2 && bounds[a2] != a2, "COVER:second_match_after_a_multibyte_character");
        if !absent && a2 < b2 && disjoint {
            assert!(c.tokens.len() == 2, "OBL:non_overlapping_match_is_recorded");
            assert!(c.tokens[1].start == a2 && c.tokens[1].end == b2, "OBL:second_token_covers_exactly_its_characters");
        } else {
            assert!(c.tokens.len() == 1, "OBL:overlapping_empty_or_absent_match_adds_nothing");
        }
        assert!(well_formed(&c, n), "OBL:collection_stays_well_formed");
    }

    // C17: after sort + update_tokens (merging the highlight of a variable name / rule result into one
    // token) the collection is still ordered, in range and free of overlaps, and nothing panics
    #[kani::proof]
    fn update_tokens_keeps_wellformed() {
        let (mut c, n, bounds) = any_collection();
        // two well-formed, disjoint tokens in arbitrary order
        let a1: usize = kani::any(); let b1: usize = kani::any();
        let a2: usize = kani::any(); let b2: usize = kani::any();
        kani::assume(a1 < b1 && b1 <= n && a2 < b2 && b2 <= n && (b1 <= a2 || b2 <= a1));
        c.tokens = Vec::with_capacity(4);
        c.tokens.push(UiToken { start: a1, end: b1, ui_type: UiTokenType::Text });
        c.tokens.push(UiToken { start: a2, end: b2, ui_type: UiTokenType::Number });
        c.sort();
        assert!(c.tokens[0].start <= c.tokens[1].start, "OBL:sort_orders_by_start");
        // merge a character range given by byte offsets on character boundaries
        let s: usize = kani::any(); let e: usize = kani::any();
        kani::assume(s < e && e <= n);     // callers pass the span of at least one token
        c.update_tokens(bounds[s], bounds[e], UiTokenType::VariableUse);
        assert!(c.tokens.len() >= 1 && c.tokens.len() <= 2, "OBL:merge_never_adds_tokens");
        assert!(well_formed(&c, n), "OBL:collection_stays_well_formed_after_merge");
        if c.tokens.len() == 2 { assert!(c.tokens[0].start <= c.tokens[1].start, "OBL:still_ordered_after_merge"); }
    }
