    use alloc::string::String;

    #[derive(Clone, Copy)]
    struct Span { s: usize, e: usize }
    impl Span { fn start(&self) -> usize { self.s } fn end(&self) -> usize { self.e } }
    impl UiTokenCollection {
        fn verif_add(&mut self, capture: Option<Span>, token_type: UiTokenType) {
            /*@SLICE add_from_regex_match.body*/
        }
    }

    // A symbolic line of n <= 3 characters given by its representation: the byte length of each
    // character (1..3).  The collection is built directly from the byte -> character map such a
    // line has (private fields are visible to this child module); that generate_char_map
    // produces exactly this map from a String is checked on concrete lines in char_map_of_concrete_lines.
    fn any_collection() -> (UiTokenCollection, usize, [usize; 4]) {
        let n: usize = kani::any();
        kani::assume(n <= 3);
        let mut map: Vec<usize> = Vec::with_capacity(16);
        let mut bounds = [0usize; 4];
        let l0: usize = kani::any(); let l1: usize = kani::any(); let l2: usize = kani::any();
        kani::assume(l0 >= 1 && l0 <= 3 && l1 >= 1 && l1 <= 3 && l2 >= 1 && l2 <= 3);
        if n > 0 { map.push(0); if l0 > 1 { map.push(0); } if l0 > 2 { map.push(0); } bounds[1] = l0; }
        if n > 1 { map.push(1); if l1 > 1 { map.push(1); } if l1 > 2 { map.push(1); } bounds[2] = bounds[1] + l1; }
        if n > 2 { map.push(2); if l2 > 1 { map.push(2); } if l2 > 2 { map.push(2); } bounds[3] = bounds[2] + l2; }
        (UiTokenCollection { tokens: Vec::new(), char_sizes: map }, n, bounds)
    }

    // generate_char_map on concrete lines mixing 1-, 2- and 3-byte characters
    #[kani::proof]
    fn char_map_of_concrete_lines() {
        let c = UiTokenCollection::new(String::from("a\u{e9}\u{20ac}b"));
        assert!(c.char_sizes.len() == 7, "OBL:one_map_entry_per_byte");
        assert!(c.char_sizes[0] == 0 && c.char_sizes[1] == 1 && c.char_sizes[2] == 1 && c.char_sizes[3] == 2
             && c.char_sizes[4] == 2 && c.char_sizes[5] == 2 && c.char_sizes[6] == 3, "OBL:every_byte_maps_to_its_character_index");
        let e = UiTokenCollection::new(String::new());
        assert!(e.char_sizes.len() == 0, "OBL:empty_line_has_empty_map");
    }

    // C17: offsets are character (not byte) positions
    #[kani::proof]
    fn char_map_and_positions() {
        let (c, n, bounds) = any_collection();
        let i: usize = kani::any();
        kani::assume(i <= n);
        // every character boundary (including the end of the line) translates to its character index
        assert!(c.get_position(bounds[i]) == i, "OBL:boundary_byte_offset_translates_to_character_index");
        kani::cover!(i == n && bounds[n] > n, "COVER:end_of_a_line_with_multibyte_characters");
    }

    fn well_formed(c: &UiTokenCollection, n: usize) -> bool {
        let t = &c.tokens;
        let mut ok = true;
        let mut i = 0;
        while i < 2 {
            if i < t.len() {
                ok = ok && t[i].start < t[i].end && t[i].end <= n;
                let mut j = 0;
                while j < 2 {
                    if j < t.len() && j != i {
                        ok = ok && (t[i].end <= t[j].start || t[j].end <= t[i].start);
                    }
                    j += 1;
                }
            }
            i += 1;
        }
        ok
    }

    // C17: 0 <= start < end <= length of the line in characters, tokens never overlap, and a token
    // covers exactly the characters of its match; a match that overlaps nothing is never dropped
    #[kani::proof]
    fn tokens_are_wellformed_char_spans() {
        let (mut c, n, bounds) = any_collection();
        // two matches, each [char a, char b) with a < b, given as byte spans
        let a1: usize = kani::any(); let b1: usize = kani::any();
        let a2: usize = kani::any(); let b2: usize = kani::any();
        kani::assume(a1 < b1 && b1 <= n && a2 < b2 && b2 <= n);
        c.verif_add(Some(Span { s: bounds[a1], e: bounds[b1] }), UiTokenType::Number);
        assert!(c.tokens.len() == 1, "OBL:first_match_is_recorded");
        assert!(c.tokens[0].start == a1 && c.tokens[0].end == b1, "OBL:token_covers_exactly_its_characters");
        c.verif_add(Some(Span { s: bounds[a2], e: bounds[b2] }), UiTokenType::Operator);
        let disjoint = b1 <= a2 || b2 <= a1;
        kani::cover!(disjoint && bounds[a2] != a2, "COVER:second_match_after_a_multibyte_character");
        if disjoint {
            assert!(c.tokens.len() == 2, "OBL:non_overlapping_match_is_recorded");
            assert!(c.tokens[1].start == a2 && c.tokens[1].end == b2, "OBL:second_token_covers_exactly_its_characters");
        } else {
            assert!(c.tokens.len() == 1, "OBL:overlapping_match_is_dropped");
        }
        assert!(well_formed(&c, n), "OBL:collection_stays_well_formed");
        c.verif_add(None, UiTokenType::Text);
        c.verif_add(Some(Span { s: bounds[a1], e: bounds[a1] }), UiTokenType::Text);
        assert!(c.tokens.len() <= 2 && well_formed(&c, n), "OBL:empty_or_absent_match_adds_nothing");
    }
