    use crate::verif_support::*;
    use crate::compiler::number::NumberItem;
    use crate::types::NumberType;

    fn tz() -> TimeOffset { TimeOffset { name: String::new(), offset: 0 } }
    fn any_date_in(y_lo: i32, y_hi: i32) -> NaiveDate {
        let y: i32 = kani::any();
        let m: u32 = kani::any();
        let d: u32 = kani::any();
        kani::assume(y >= y_lo && y <= y_hi && m >= 1 && m <= 12 && d >= 1 && d <= 31);
        match NaiveDate::from_ymd_opt(y, m, d) { Some(x) => x, None => { kani::assume(false); unreachable!() } }
    }
    // the result is leaked on purpose: dropping an Rc<dyn DataItem> makes CBMC explore the drop glue
    // of every DataItem implementor (DynamicTypeItem -> TokenInfo -> ... is recursive and unbounded)
    fn result_date(r: Option<Rc<dyn DataItem>>) -> Option<NaiveDate> {
        let out = match &r { Some(i) => i.as_any().downcast_ref::<DateItem>().map(|d| d.0), None => None };
        core::mem::forget(r);
        out
    }
    fn is_none_leak(r: Option<Rc<dyn DataItem>>) -> bool { let n = r.is_none(); core::mem::forget(r); n }
    fn months_index(d: &NaiveDate) -> i64 { d.year() as i64 * 12 + d.month0() as i64 }

    // C09: a date plus N days (N < 30, i.e. below the first month the splitting recognises) is the
    // calendar date exactly that many days away
    #[kani::proof]
    fn add_days_exact() { add_days_exact_in(1, 9998) }
    #[kani::proof]
    fn add_days_exact_1990_2040() { add_days_exact_in(1990, 2040) }
    fn add_days_exact_in(y_lo: i32, y_hi: i32) {
        let cfg = empty_config();
        let date = any_date_in(y_lo, y_hi);
        let n: i64 = kani::any();
        kani::assume(n >= 0 && n < 30);
        let r = DateItem(date, tz()).calculate(&cfg, true, &DurationItem(Duration::days(n)), OperationType::Add);
        let got = result_date(r);
        assert!(got.is_some(), "OBL:date_plus_days_defined");
        assert!(got.unwrap().num_days_from_ce() as i64 == date.num_days_from_ce() as i64 + n, "OBL:exactly_n_days_later");
    }
    #[kani::proof]
    fn sub_days_exact() { sub_days_exact_in(2, 9999) }
    #[kani::proof]
    fn sub_days_exact_1990_2040() { sub_days_exact_in(1990, 2040) }
    fn sub_days_exact_in(y_lo: i32, y_hi: i32) {
        let cfg = empty_config();
        let date = any_date_in(y_lo, y_hi);
        let n: i64 = kani::any();
        kani::assume(n >= 0 && n < 30);
        let r = DateItem(date, tz()).calculate(&cfg, true, &DurationItem(Duration::days(n)), OperationType::Sub);
        let got = result_date(r);
        assert!(got.is_some(), "OBL:date_minus_days_defined");
        assert!(got.unwrap().num_days_from_ce() as i64 == date.num_days_from_ce() as i64 - n, "OBL:exactly_n_days_earlier");
    }

    // C09: adding N months / years keeps the day of the month and moves the calendar month by N
    // (y years + m months, as 365-day years and 30-day months; when the target month has no such
    // day the calculation is undefined - an error value, never a panic)
    #[kani::proof]
    fn add_months_years_keep_day() { add_months_years_keep_day_in(1, 9000) }
    #[kani::proof]
    fn add_months_years_keep_day_1990_2040() { add_months_years_keep_day_in(1990, 2040) }
    fn add_months_years_keep_day_in(y_lo: i32, y_hi: i32) {
        let cfg = empty_config();
        let date = any_date_in(y_lo, y_hi);
        let y: i64 = kani::any();
        let m: i64 = kani::any();
        kani::assume(y >= 0 && y <= (if y_hi > 3000 { 500 } else { 20 }) && m >= 0 && m <= 11);
        let d = Duration::days(365 * y + 30 * m);
        let r = DateItem(date, tz()).calculate(&cfg, true, &DurationItem(d), OperationType::Add);
        let got = result_date(r);
        kani::cover!(date.month() + m as u32 == 12, "COVER:lands_on_december");
        let target = months_index(&date) + 12 * y + m;
        let exists = NaiveDate::from_ymd_opt((target / 12) as i32, (target % 12) as u32 + 1, date.day()).is_some();
        if exists {
            assert!(got.is_some(), "OBL:defined_when_the_target_day_exists");
            let g = got.unwrap();
            assert!(g.day() == date.day(), "OBL:keeps_day_of_month");
            assert!(months_index(&g) == target, "OBL:moves_calendar_month_by_n");
        } else {
            assert!(got.is_none(), "OBL:undefined_when_the_target_day_does_not_exist");
        }
    }

    #[kani::proof]
    fn sub_years_keep_day() {
        let cfg = empty_config();
        let date = any_date_in(600, 9999);
        let y: i64 = kani::any();
        kani::assume(y >= 0 && y <= 500);
        let r = DateItem(date, tz()).calculate(&cfg, true, &DurationItem(Duration::days(365 * y)), OperationType::Sub);
        let got = result_date(r);
        let exists = NaiveDate::from_ymd_opt(date.year() - y as i32, date.month(), date.day()).is_some();
        if exists {
            assert!(got.is_some(), "OBL:defined_when_the_target_day_exists");
            let g = got.unwrap();
            assert!(g.day() == date.day() && g.month() == date.month(), "OBL:keeps_day_and_month");
            assert!(g.year() as i64 == date.year() as i64 - y, "OBL:moves_calendar_year_by_n");
        } else {
            assert!(got.is_none(), "OBL:undefined_when_the_target_day_does_not_exist");
        }
    }

    // subtracting m months that stay inside the calendar year
    #[kani::proof]
    fn sub_months_within_year() {
        let cfg = empty_config();
        let date = any_date_in(2, 9999);
        let m: i64 = kani::any();
        kani::assume(m >= 1 && m <= 11 && (date.month() as i64) > m);
        let r = DateItem(date, tz()).calculate(&cfg, true, &DurationItem(Duration::days(30 * m)), OperationType::Sub);
        let got = result_date(r);
        let target = months_index(&date) - m;
        let exists = NaiveDate::from_ymd_opt((target / 12) as i32, (target % 12) as u32 + 1, date.day()).is_some();
        if exists {
            assert!(got.is_some(), "OBL:defined_when_the_target_day_exists");
            let g = got.unwrap();
            assert!(g.day() == date.day(), "OBL:keeps_day_of_month");
            assert!(months_index(&g) == target, "OBL:moves_calendar_month_back_by_n");
        } else {
            assert!(got.is_none(), "OBL:undefined_when_the_target_day_does_not_exist");
        }
    }

    // KNOWN FINDING class: month subtraction that crosses into the previous year
    #[kani::proof]
    fn sub_months_across_year_boundary() {
        let cfg = empty_config();
        let date = any_date_in(2, 9999);
        let m: i64 = kani::any();
        kani::assume(m >= 1 && m <= 11 && (date.month() as i64) <= m);
        let r = DateItem(date, tz()).calculate(&cfg, true, &DurationItem(Duration::days(30 * m)), OperationType::Sub);
        let got = result_date(r);
        let target = months_index(&date) - m;
        let exists = NaiveDate::from_ymd_opt((target / 12) as i32, (target % 12) as u32 + 1, date.day()).is_some();
        if exists {
            assert!(got.is_some() && got.unwrap().day() == date.day() && months_index(&got.unwrap()) == target, "OBL:moves_calendar_month_back_by_n_with_year_borrow");
        }
    }

    // a negative duration moves the date the other way: date + (-D) == date - D, date - (-D) == date + D
    #[kani::proof]
    fn plus_negative_duration() {
        let cfg = empty_config();
        let date = any_date_in(2019, 2021);
        let n: i64 = kani::any();
        kani::assume(n >= 1 && n < 30);
        let me = DateItem(date, tz());
        let a = result_date(me.calculate(&cfg, true, &DurationItem(Duration::days(-n)), OperationType::Add));
        assert!(a.is_some() && a.unwrap().num_days_from_ce() as i64 == date.num_days_from_ce() as i64 - n, "OBL:plus_negative_moves_back");
    }
    #[kani::proof]
    fn minus_negative_duration() {
        let cfg = empty_config();
        let date = any_date_in(2019, 2021);
        let n: i64 = kani::any();
        kani::assume(n >= 1 && n < 30);
        let me = DateItem(date, tz());
        let c = result_date(me.calculate(&cfg, true, &DurationItem(Duration::days(-n)), OperationType::Sub));
        assert!(c.is_some() && c.unwrap().num_days_from_ce() as i64 == date.num_days_from_ce() as i64 + n, "OBL:minus_negative_moves_forward");
    }

    #[kani::proof]
    fn other_operands_and_operators() {
        let cfg = empty_config();
        let date = any_date_in(1, 9999);
        let me = DateItem(date, tz());
        let n: i64 = kani::any();
        kani::assume(n >= 0 && n < 30);
        let dur = DurationItem(Duration::days(n));
        assert!(is_none_leak(me.calculate(&cfg, true, &dur, OperationType::Mul)), "OBL:date_times_duration_undefined");
        assert!(is_none_leak(me.calculate(&cfg, true, &dur, OperationType::Div)), "OBL:date_over_duration_undefined");
        let num = NumberItem(kani::any(), NumberType::Decimal);
        let k: u8 = kani::any();
        kani::assume(k < 4);
        assert!(is_none_leak(me.calculate(&cfg, true, &num, op_of(k))), "OBL:date_op_number_undefined");
        let other = DateItem(any_date_in(1, 9999), tz());
        assert!(is_none_leak(me.calculate(&cfg, true, &other, op_of(k))), "OBL:date_op_date_undefined");
    }

    // C01: no panic for ANY date of years 1..9999 and ANY duration chrono can hold, both operators
    #[kani::proof]
    fn no_panic_full_range() {
        let cfg = empty_config();
        let date = any_date_in(1, 9999);
        let d = any_duration();
        let sub: bool = kani::any();
        let r = DateItem(date, tz()).calculate(&cfg, true, &DurationItem(d), if sub { OperationType::Sub } else { OperationType::Add });
        if let Some(g) = result_date(r) {
            assert!(g.year() >= -262143 && g.year() <= 262142, "OBL:result_is_a_valid_date");
        }
    }

    #[kani::proof]
    fn canary_date() {
        let cfg = empty_config();
        let date = any_date_in(1, 9998);
        let r = DateItem(date, tz()).calculate(&cfg, true, &DurationItem(Duration::days(3)), OperationType::Add);
        assert!(result_date(r).unwrap().num_days_from_ce() == date.num_days_from_ce() + 2, "OBL:canary_false_clause");
    }
