    use crate::verif_support::*;

    fn slice_what_percent(part: f64, total: f64) -> f64 { /*@SLICE find_numbers_percent.div*/ }
    fn slice_of_what_money(number_part: f64, percent_part: f64) -> f64 { /*@SLICE find_total_from_percent.div_money*/ }
    fn slice_of_what_number(number_part: f64, percent_part: f64) -> f64 { /*@SLICE find_total_from_percent.div_number*/ }

    // C05: 'A is what % of B' = 100*A/B ; 'A is p% of what' = 100*A/p (money and number arms alike);
    // zero divisor -> 0 (by do_divition's contract).
    #[kani::proof]
    #[kani::stub(crate::tools::do_divition, crate::verif_support::div_probe)]
    fn what_percent_and_of_what() {
        let a: f64 = kani::any();
        let b: f64 = kani::any();
        let which: u8 = kani::any();
        kani::assume(which < 3);
        let got = match which { 0 => slice_what_percent(a, b), 1 => slice_of_what_money(a, b), _ => slice_of_what_number(a, b) };
        if div_calls() == 0 {
            assert!(same_f64(got, spec_div(a * 100.0, b)), "OBL:is_100a_over_b");
        } else {
            assert!(div_calls() == 1 && div_was(0, a * 100.0, b), "OBL:divides_100a_by_b");
            assert!(same_f64(got, div_call(0).2), "OBL:is_100a_over_b");
        }
    }
