    fn slice_small_date(year: i32, month: u32, day: f64) -> Option<NaiveDate> { /*@SLICE small_date.from_ymd*/ }
    fn slice_at(date: NaiveDate, time: chrono::NaiveDateTime) -> chrono::NaiveDateTime { /*@SLICE at_date.and_hms*/ }

    fn leap(y: i32) -> bool { (y % 4 == 0 && y % 100 != 0) || y % 400 == 0 }
    fn days_in(m: u32, y: i32) -> u32 { match m { 1 | 3 | 5 | 7 | 8 | 10 | 12 => 31, 4 | 6 | 9 | 11 => 30, 2 => if leap(y) { 29 } else { 28 }, _ => 0 } }

    // C09: a day/month/year triple denotes that calendar date, and impossible dates (Feb 30,
    // month 13, day 0, 29 Feb of a common year) are never accepted as dates
    #[kani::proof]
    fn only_calendar_dates_are_accepted() {
        let year: i32 = kani::any();
        let month: u32 = kani::any();
        let d: u32 = kani::any();
        kani::assume(year >= 1 && year <= 9999 && month <= 13 && d <= 40);
        let day = d as f64;     // the rule hands over the day as the number token's f64
        let got = slice_small_date(year, month, day);
        let valid = month >= 1 && month <= 12 && d >= 1 && d <= days_in(month, year);
        kani::cover!(month == 2 && d == 29 && valid, "COVER:leap_day");
        if valid {
            assert!(got.is_some(), "OBL:calendar_date_is_accepted");
            let g = got.unwrap();
            assert!(g.year() == year && g.month() == month && g.day() == d, "OBL:denotes_that_day_month_year");
        } else {
            assert!(got.is_none(), "OBL:impossible_date_is_rejected");
        }
    }

    // C14: '<date> at <time>' has the date's day and the time's clock reading
    #[kani::proof]
    fn date_at_time() {
        let days: i32 = kani::any();
        kani::assume(days >= 1 && days <= 3_652_059);
        let date = match NaiveDate::from_num_days_from_ce_opt(days) { Some(d) => d, None => { kani::assume(false); unreachable!() } };
        let secs: u32 = kani::any();
        kani::assume(secs < 86400);
        let time = NaiveDate::from_ymd_opt(2020, 1, 1).unwrap().and_hms_opt(secs / 3600, (secs / 60) % 60, secs % 60).unwrap();
        let got = slice_at(date, time);
        assert!(got.date() == date, "OBL:keeps_the_date");
        assert!(got.time().num_seconds_from_midnight() == secs, "OBL:takes_the_clock_reading_of_the_time");
    }
