    use crate::verif_support::*;
    use crate::compiler::number::NumberItem;
    use crate::types::NumberType;

    // C05: a percent operand denotes "that share of the other operand": div(X,100)*p,
    // for every X and p, sign included (X may be negative).
    #[kani::proof]
    #[kani::stub(crate::tools::do_divition, crate::verif_support::div_probe)]
    fn percent_share() {
        let x: f64 = kani::any();
        let p: f64 = kani::any();
        let me = PercentItem(p);
        let other = NumberItem(x, NumberType::Decimal);
        kani::cover!(x < 0.0 && p > 0.0, "COVER:negative_base");
        let got = me.get_number(&other);
        if div_calls() == 0 {
            assert!(same_f64(got, spec_div(x, 100.0) * p), "OBL:share_is_x_div_100_times_p");
        } else {
            assert!(div_calls() == 1 && div_was(0, x, 100.0), "OBL:share_divides_x_by_100");
            assert!(same_f64(got, div_call(0).2 * p), "OBL:share_is_x_div_100_times_p");
        }
        // against another percentage the percent is its own number
        let q: f64 = kani::any();
        assert!(same_f64(me.get_number(&PercentItem(q)), p), "OBL:percent_vs_percent_is_p");
        assert!(same_f64(me.get_underlying_number(), p), "OBL:underlying_is_p");
    }

    #[kani::proof]
    fn percent_calculate() {
        let cfg = empty_config();
        let p: f64 = kani::any();
        let q: f64 = kani::any();
        let k: u8 = kani::any();
        kani::assume(k == 0 || k == 2 || k == 3);
        let r = PercentItem(p).calculate(&cfg, true, &PercentItem(q), op_of(k));
        assert!(r.is_some(), "OBL:percent_op_percent_defined");
        let r = r.unwrap();
        let n = r.as_any().downcast_ref::<PercentItem>();
        assert!(n.is_some(), "OBL:result_is_percent");
        let want = match k { 0 => p + q, 2 => p * q, _ => p - q };
        assert!(same_f64(n.unwrap().0, want), "OBL:ieee_value");
        let o = PercentItem(p).calculate(&cfg, true, &NumberItem(q, NumberType::Decimal), op_of(k));
        assert!(o.is_none(), "OBL:percent_op_number_undefined");
    }
