    use crate::verif_support::*;

    struct V(f64);
    impl V {
        fn binary_arg(&self) -> i128 { (/*@SLICE print.binary_arg*/) as i128 }
        fn octal_arg(&self) -> i128 { (/*@SLICE print.octal_arg*/) as i128 }
        fn hex_arg(&self) -> i128 { (/*@SLICE print.hex_arg*/) as i128 }
        fn raw_arg(&self) -> i128 { (/*@SLICE print.raw_arg*/) as i128 }
    }

    // C13: 'N to hex|octal|binary' prints N so that reading the printed literal back gives the same
    // integer, for every non-negative integer the calculator accepts;  C14: the printed timestamp
    // shows every digit.  The integer handed to the formatter must BE the value (no saturation).
    #[kani::proof]
    fn printed_integer_is_the_value() {
        let n: i64 = kani::any();
        kani::assume(n >= -(1i64 << 53) && n <= (1i64 << 53));
        let v = V(n as f64);     // every integer of that range is an exact f64
        kani::cover!(n > 0x7fff_ffff, "COVER:beyond_32_bits");
        if n >= 0 {
            assert!(v.binary_arg() == n as i128, "OBL:binary_digits_are_of_the_value_itself");
            assert!(v.octal_arg() == n as i128, "OBL:octal_digits_are_of_the_value_itself");
            assert!(v.hex_arg() == n as i128, "OBL:hex_digits_are_of_the_value_itself");
        }
        assert!(v.raw_arg() == n as i128, "OBL:raw_timestamp_shows_every_digit");
    }
