    use crate::verif_support::*;
    use crate::compiler::number::NumberItem;
    use crate::types::NumberType;

    fn tz() -> TimeOffset { TimeOffset { name: String::new(), offset: 0 } }
    fn any_instant() -> NaiveDateTime { instant_in(86400, 7_258_118_400) }   // 1970-01-02 .. 2199-12-31
    fn instant_in(lo: i64, hi: i64) -> NaiveDateTime {
        let secs: i64 = kani::any();
        kani::assume(secs >= lo && secs < hi);
        match chrono::DateTime::<chrono::Utc>::from_timestamp(secs, 0) { Some(t) => t.naive_utc(), None => { kani::assume(false); unreachable!() } }
    }
    fn result_time(r: Option<Rc<dyn DataItem>>) -> Option<(NaiveDateTime, i32)> {
        let out = match &r { Some(i) => i.as_any().downcast_ref::<TimeItem>().map(|d| (d.0, d.1.offset)), None => None };
        core::mem::forget(r);
        out
    }
    fn is_none_leak(r: Option<Rc<dyn DataItem>>) -> bool { let n = r.is_none(); core::mem::forget(r); n }

    // C11: adding or subtracting a duration moves the clock by that (signed) amount modulo 24 hours
    fn plus_minus_duration(max_abs: i64, t_lo: i64, t_hi: i64) {
        let cfg = empty_config();
        let t = instant_in(t_lo, t_hi);
        let d: i64 = kani::any();
        kani::assume(d >= -max_abs && d <= max_abs);
        let sub: bool = kani::any();
        let me = TimeItem(t, TimeOffset { name: String::new(), offset: 123 });
        let r = me.calculate(&cfg, true, &DurationItem(Duration::seconds(d)), if sub { OperationType::Sub } else { OperationType::Add });
        let got = result_time(r);
        assert!(got.is_some(), "OBL:time_plus_minus_duration_defined");
        let (g, off) = got.unwrap();
        let tod = t.num_seconds_from_midnight() as i64;
        let moved = if sub { -d } else { d };
        kani::cover!(sub && d < 0, "COVER:minus_a_negative_duration");
        kani::cover!(!sub && d > 86400, "COVER:plus_more_than_a_day");
        assert!(g.num_seconds_from_midnight() as i64 == (tod + moved % 86400 + 86400) % 86400, "OBL:clock_moves_by_signed_amount_mod_24h");
        assert!(off == 123, "OBL:zone_unchanged");
    }
    #[kani::proof]
    #[kani::stub(chrono::Utc::now, crate::verif_support::any_now)]
    fn time_plus_minus_duration() { plus_minus_duration(10_000_000, 1_700_006_400, 1_700_611_200) }   // one week of instants, durations up to 10^7 s (115 days)
    #[kani::proof]
    #[kani::stub(chrono::Utc::now, crate::verif_support::any_now)]
    fn time_plus_minus_duration_small() { plus_minus_duration(100_000, 1_700_006_400, 1_700_092_800) }

    // 'T1 + T2' / 'T1 - T2' use T2's time of day as the amount
    #[kani::proof]
    fn time_plus_minus_time() { plus_minus_time(86400, 7_258_118_400) }
    #[kani::proof]
    fn time_plus_minus_time_two_days() { plus_minus_time(1_700_006_400, 1_700_092_800) }
    fn plus_minus_time(lo: i64, hi: i64) {
        let cfg = empty_config();
        let t1 = instant_in(lo, hi);
        let t2 = instant_in(lo, hi);
        let sub: bool = kani::any();
        let r = TimeItem(t1, tz()).calculate(&cfg, true, &TimeItem(t2, tz()), if sub { OperationType::Sub } else { OperationType::Add });
        let got = result_time(r);
        assert!(got.is_some(), "OBL:time_plus_minus_time_defined");
        let a = t1.num_seconds_from_midnight() as i64;
        let b = t2.num_seconds_from_midnight() as i64;
        let want = if sub { (a - b + 86400) % 86400 } else { (a + b) % 86400 };
        assert!(got.unwrap().0.num_seconds_from_midnight() as i64 == want, "OBL:clock_moves_by_other_time_of_day_mod_24h");
    }

    #[kani::proof]
    #[kani::stub(chrono::Utc::now, crate::verif_support::any_now)]
    fn time_other_cases() {
        let cfg = empty_config();
        let t = any_instant();
        let me = TimeItem(t, tz());
        let d = DurationItem(Duration::seconds(30));
        assert!(is_none_leak(me.calculate(&cfg, true, &d, OperationType::Mul)), "OBL:time_times_duration_undefined");
        assert!(is_none_leak(me.calculate(&cfg, true, &d, OperationType::Div)), "OBL:time_over_duration_undefined");
        let k: u8 = kani::any();
        kani::assume(k < 4);
        assert!(is_none_leak(me.calculate(&cfg, true, &NumberItem(kani::any(), NumberType::Decimal), op_of(k))), "OBL:time_op_number_undefined");
        assert!(is_none_leak(me.calculate(&cfg, false, &TimeItem(any_instant(), tz()), op_of(k))), "OBL:time_on_the_right_of_time_undefined");
    }

    // C11: the shown wall time is the UTC instant plus the zone offset, modulo 24 h
    struct ItemView(NaiveDateTime, TimeOffset);
    impl ItemView { fn shifted(&self) -> chrono::DateTime<FixedOffset> {
        let tz_offset = FixedOffset::east(self.1.offset * 60);
        let datetime = /*@SLICE print.shift*/;
        datetime
    } }
    #[kani::proof]
    fn print_shift() {
        let t = any_instant();
        let off: i32 = kani::any();
        kani::assume(off >= -(14 * 60 + 59) && off <= 14 * 60 + 59);
        let shown = ItemView(t, TimeOffset { name: String::new(), offset: off }).shifted();
        let tod = t.num_seconds_from_midnight() as i64;
        let want = (tod + off as i64 * 60 + 86400) % 86400;
        assert!(shown.hour() as i64 * 3600 + shown.minute() as i64 * 60 + shown.second() as i64 == want, "OBL:shown_wall_time_is_utc_plus_offset_mod_24h");
    }
